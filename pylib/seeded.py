"""bin/verif seeded <dir> [--tier quick|thorough] [--checks C01,C17]: run checks against a seeded break.

The patch is applied to a scratch git worktree of /repo (outside /repo and /verif), the checks are pointed at it with VERIF_REPO,
and the worktree and its build trees are removed afterwards.  Prints, per check, the exit code and the violation keys."""
import json, os, re, shutil, subprocess, sys, hashlib
from . import build


def run(argv):
    d = os.path.abspath(argv[0])
    tier = argv[argv.index("--tier") + 1] if "--tier" in argv else "quick"
    meta = json.load(open(os.path.join(d, "meta.json")))
    checks = argv[argv.index("--checks") + 1].split(",") if "--checks" in argv else [meta["property"]]
    if "--recorded" in argv and os.path.exists(os.path.join(d, "detection.json")):
        # also every check that an earlier run recorded for this change (changes whose trigger lies in another property's domain)
        for rec in json.load(open(os.path.join(d, "detection.json"))).values():
            checks += [c for c in rec if c not in checks]
    seed = os.environ.get("VERIF_SEED", "1")
    wt = "/tmp/seedrun_%s_%d" % (os.path.basename(d), os.getpid())
    subprocess.check_call(["git", "-C", "/repo", "worktree", "add", "--detach", wt, "HEAD"], stdout=subprocess.DEVNULL, stderr=subprocess.DEVNULL)
    results = {}
    try:
        subprocess.check_call(["git", "-C", wt, "apply", os.path.join(d, "patch.diff")])
        env = dict(os.environ, VERIF_REPO=wt, VERIF_SEED=seed, VERIF_OUT_ROOT=wt + ".out")
        for pid in checks:
            p = subprocess.run([sys.executable, os.path.join(build.VERIF, "bin", "verif"), "check", pid, "--tier", tier], stdout=subprocess.PIPE, stderr=subprocess.STDOUT, env=env, cwd=build.VERIF)
            txt = p.stdout.decode(errors="replace")
            keys = re.findall(r"^  violated: (.+?) \(x(\d+)\)", txt, flags=re.M)
            results[pid] = dict(rc=p.returncode, keys=[k for k, n in keys], counts={k: int(n) for k, n in keys})
            print("%s %s seed=%s rc=%d keys=%s" % (pid, tier, seed, p.returncode, [k for k, n in keys][:12]))
            if p.returncode == 2:
                print(txt[-1500:])
    finally:
        subprocess.call(["git", "-C", "/repo", "worktree", "remove", "--force", wt], stdout=subprocess.DEVNULL, stderr=subprocess.DEVNULL)
        tag = hashlib.sha1(wt.encode()).hexdigest()[:10]
        shutil.rmtree(os.path.join(build.VERIF, "_build", "alt-" + tag), ignore_errors=True)
        shutil.rmtree(wt + ".out", ignore_errors=True)     # evidence, replay files and scratch output of the run against the changed tree
    out = os.path.join(d, "detection.json")
    prev = {}
    if os.path.exists(out):
        prev = json.load(open(out))
    prev["%s|seed=%s" % (tier, seed)] = results
    json.dump(prev, open(out, "w"), indent=1)
    return 0 if any(r["rc"] == 1 for r in results.values()) else 3
