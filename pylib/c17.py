"""C17: no out-of-bounds access / UB on supported workflows: all drivers re-run under ASan+UBSan+Eigen-precondition builds (and memcheck),
only the instrumentation output is judged; plus the boundary-probe driver in every flavour."""
import glob, os, subprocess, sys, time
from . import build, engine, runner

sys.path.insert(0, os.path.join(build.VERIF, "monitors"))
import sanitizer_logs  # noqa: E402

A2 = ["A-real", "A-cplx"]
RULE = ("workloads = every harness driver of C01-C15, C18-C20 sampled evenly over its case range (stride), plus the boundary-probe driver `bounds` (state labels at/beyond 2^N, empty and one-element frequency lists, "
        "off-diagonal components with symmetries ignored, 1x1 blocks, heterogeneous lattices in both ordering modes) executed by the ASan+UBSan builds with Eigen precondition checks enabled (real and complex), "
        "thorough: additionally valgrind memcheck on the plain build for a subset; a violation is a report block whose innermost non-sanitizer frame belongs to the library (keyed by tool, kind, function), "
        "or a fatal signal; reports owned by the harness fail the run as harness errors; leaks are not counted; non-trivial = the case reached the dynamical part of its driver; distinct by driver + canonical case")

SAN_ENV = {"ASAN_OPTIONS": "halt_on_error=0:detect_leaks=0:abort_on_error=0:print_summary=0:detect_stack_use_after_return=0:allocator_may_return_null=1",
           "UBSAN_OPTIONS": "print_stacktrace=1:halt_on_error=0", "VH_STDERR_MARKERS": "1"}

# driver -> (quick sample per flavour, thorough sample per flavour, per-case timeout)
PLAN = [("bounds", 48, 400, 60), ("gfdef", 30, 300, 120), ("g2def", 4, 80, 600), ("ham", 40, 400, 60), ("presets", 120, 2000, 60), ("opalg", 120, 1500, 120),
        ("symm", 40, 500, 60), ("partinv", 6, 120, 600), ("dm", 30, 400, 60), ("fieldop", 16, 200, 120), ("gfsym", 12, 200, 240), ("wick", 6, 60, 600),
        ("g2cont", 16, 200, 240), ("susc", 16, 240, 120), ("vertex", 27, 84, 240), ("index", 60, 1200, 120), ("trunc", 16, 200, 240), ("lattice", 60, 1500, 60)]


def scan_errs(out, wdir, driver, flavours, seed, tier, env):
    nrep = 0
    reported = set()
    for fl in flavours:
        for path in sorted(glob.glob(os.path.join(wdir, "%s.%s.*.err" % (driver, fl)))):
            try:
                txt = open(path, "r", errors="replace").read()
            except Exception:
                continue
            if not txt:
                continue
            for rep in sanitizer_logs.parse_text(txt):
                nrep += 1
                key = "C17:%s:%s:%s" % (rep["tool"], rep["kind"], rep["site"])
                out.counters["reports:" + rep["tool"]] = out.counters.get("reports:" + rep["tool"], 0) + 1
                wit = dict(driver=driver, flavour=fl, case=rep["case"], monitor=rep["tool"], detail=rep["text"][:3500], replay_special="sanitizer", env=env)
                if rep["owner"] == "library":
                    out.add_violation(key, wit)
                    reported.add((fl, rep["case"]))
                elif rep["owner"] == "harness":
                    out.infra.append("sanitizer report inside harness code (%s/%s case %s): %s" % (driver, fl, rep["case"], rep["text"][:800]))
                else:
                    out.counters["reports:external"] = out.counters.get("reports:external", 0) + 1
                    out.extra.setdefault("external_reports", [])
                    if len(out.extra["external_reports"]) < 5:
                        out.extra["external_reports"].append(dict(driver=driver, flavour=fl, case=rep["case"], text=rep["text"][:600]))
    return reported


def run(tier, seed):
    pid = "C17"
    out = engine.Outcome(pid, tier, seed)
    try:
        vhs = build.build_many(A2 + ["P-real", "P-cplx"])
    except Exception as e:
        print("HARNESS-FAILURE: build failed:\n" + str(e)[-6000:])
        out.infra.append("build failed")
        engine.finish(out, rule=RULE, min_nontrivial=2)
        return 2
    wdir = runner.work_dir(pid + "-" + tier)
    executed = {}
    only = os.environ.get("VERIF_C17_ONLY")   # debugging aid: restrict the plan to some drivers
    plan = [p for p in PLAN if not only or p[0] in only.split(",")]
    import concurrent.futures as cf

    def go(item):
        driver, qs, ts, tmo = item
        sample = qs if tier == "quick" else ts
        return item, runner.run_driver({f: vhs[f] for f in A2}, driver, seed, tier, wdir, per_case_timeout=tmo, env_extra=SAN_ENV, sample=sample, workers=6)

    # several drivers at a time: most quick samples are too small to keep 16 cores busy on their own; the MPI runs go alongside
    import threading
    mpi_out = engine.Outcome(pid, tier, seed)
    mpi_thread = None
    if not only:
        mpi_thread = threading.Thread(target=mpi_sanitized, args=(mpi_out, vhs["A-real"], vhs["P-real"], wdir, seed, tier))
        mpi_thread.start()
    with cf.ThreadPoolExecutor(max_workers=4) as ex:
        results = list(ex.map(go, plan))
    for (item, merged) in results:
        driver = item[0]
        n = 0
        for fl, res in merged.items():
            for case in res.cases:
                n += 1
                c = dict(case)
                # the drivers' own verdicts belong to their own properties; only the boundary-probe driver's monitors are C17's
                if driver != "bounds":
                    c["violations"] = [v for v in c.get("violations", []) if v["key"].startswith("C17:")]
                    c["counters"] = {}
                    c["ratios"] = {}
                out.add_case(c, driver, fl)
        executed[driver] = n
        reported = scan_errs(out, wdir, driver, A2, seed, tier, SAN_ENV)
        # a process that died right after printing a sanitizer report (e.g. ASan SEGV) is already accounted for by that report
        for fl, res in merged.items():
            keep = []
            for inc in res.incidents:
                if inc["kind"] == "crash" and (fl, inc["case"]) in reported:
                    out.counters["crashes_with_report"] = out.counters.get("crashes_with_report", 0) + 1
                    continue
                keep.append(inc)
            res.incidents = keep
        engine.record_incidents(out, merged, driver, {f: vhs[f] for f in A2}, seed, tier, env_extra=SAN_ENV, key_driver="workload", extra_witness=dict(replay_special="sanitizer", env=SAN_ENV))
    # boundary probes also in the plain builds (the documented bounds checks are behavioural)
    merged = runner.run_driver({f: vhs[f] for f in ("P-real", "P-cplx")}, "bounds", seed, tier, wdir, per_case_timeout=60)
    for fl, res in merged.items():
        for case in res.cases:
            out.add_case(case, "bounds", fl)
    engine.record_incidents(out, merged, "bounds", {f: vhs[f] for f in ("P-real", "P-cplx")}, seed, tier, key_driver="workload")
    if mpi_thread is not None:
        mpi_thread.join()
        for k, w in mpi_out.violations.items():
            for _ in range(mpi_out.vcount.get(k, 1)):
                out.add_violation(k, w)
        for k, v in mpi_out.counters.items():
            out.counters[k] = out.counters.get(k, 0) + v
        out.infra.extend(mpi_out.infra); out.inconclusive.extend(mpi_out.inconclusive)
    out.extra["cases_executed_under_sanitizers"] = executed
    if tier == "thorough":
        memcheck(out, vhs["P-real"], wdir, seed, tier)
    return engine.finish(out, rule=RULE, min_nontrivial=40 if tier == "quick" else 400, assumptions=[
        "red-zone tools miss non-adjacent overflows and reads that stay inside an allocation (partly covered by the Eigen precondition checks and memcheck); only code the workloads reach is observed",
        "MemorySanitizer is not used (uninstrumented libstdc++/Boost/OpenMPI would raise false alarms); uninitialised reads are covered by valgrind memcheck in the thorough tier",
        "a clean run means 'no report on these executions', not memory safety"])


def mpi_sanitized(out, vh_asan, vh_plain, wdir, seed, tier):
    """The MPI buffer paths (reductions, broadcasts of term lists and eigen-data) under ASan+UBSan with several ranks, and under
    valgrind memcheck with more ranks than 2PGF parts (a rank without a job hands its buffer to the reduction untouched)."""
    import glob as _glob
    from . import mpirun
    # (the par driver is launched in its quick tier, which has 14 cases)
    runs = [("asan", vh_asan, 3, 0, 4 if tier == "quick" else 14, dict(SAN_ENV)), ("asan", vh_asan, 5, 4, 7 if tier == "quick" else 14, dict(SAN_ENV))]
    supp = "/usr/share/openmpi/openmpi-valgrind.supp"
    vg = ["valgrind", "--tool=memcheck", "-q", "--error-exitcode=0", "--num-callers=30", "--leak-check=no", "--track-origins=no"] + (["--suppressions=" + supp] if os.path.exists(supp) else [])
    # cases 0 and 1 of `par` are a fixed Hubbard atom (4-6 2PGF parts): with 8 ranks some ranks never get a job
    runs.append(("memcheck", vg + [vh_plain], 8, 0, 1 if tier == "quick" else 2, {"VH_STDERR_MARKERS": "1"}))
    if tier == "thorough":
        runs.append(("memcheck", vg + [vh_plain], 5, 2, 8, {"VH_STDERR_MARKERS": "1"}))
    for (tool, vh, np_, lo, hi, env) in runs:
        tag = "mpi.%s.np%d" % (tool, np_)
        odir = os.path.join(wdir, tag + ".stderr")
        # memcheck: definedness does not cross process boundaries through shared memory, so the TCP transport is used: a send of
        # uninitialised user data then shows up as "Syscall param ... points to uninitialised byte(s)"
        margs = ["--output-filename", odir] + (["--mca", "btl", "tcp,self", "--mca", "btl_tcp_if_include", "lo"] if tool == "memcheck" else [])
        res = mpirun.launch(vh, "par", np_, seed, "quick", lo, hi, wdir, tag, env, 1500 if tool == "memcheck" else 600, mpiexec_args=margs)
        ncases = len(res["ranks"][0][0])
        out.counters["mpi_%s_cases" % tool] = out.counters.get("mpi_%s_cases" % tool, 0) + ncases
        if res["timed_out"]:
            out.inconclusive.append("%s run of par under mpiexec -np %d did not finish within the watchdog" % (tool, np_))
        elif ncases < hi - lo:
            out.infra.append("%s run of par under mpiexec -np %d completed only %d of %d cases; stderr tail: %s" % (tool, np_, ncases, hi - lo, res["stderr"][-600:]))
        for path in sorted(_glob.glob(os.path.join(odir, "*", "rank.*", "stderr"))):
            txt = open(path, "r", errors="replace").read()
            for rep in sanitizer_logs.parse_text(txt):
                if tool == "memcheck" and rep["tool"] != "memcheck":
                    continue
                key = "C17:%s:%s:%s" % (rep["tool"], rep["kind"], rep["site"])
                out.counters["reports:" + rep["tool"]] = out.counters.get("reports:" + rep["tool"], 0) + 1
                wit = dict(driver="par", flavour="A-real" if tool == "asan" else "P-real", case=rep["case"], monitor=rep["tool"] + "+mpi", detail="mpiexec -np %d: %s" % (np_, rep["text"][:3300]),
                           replay_special="mpi-sanitizer", np=np_, env=env, tool=tool)
                if rep["owner"] == "library":
                    out.add_violation(key, wit)
                elif rep["owner"] == "harness":
                    out.infra.append("%s report inside harness code under mpiexec -np %d: %s" % (tool, np_, rep["text"][:800]))
                else:
                    out.counters["reports:external"] = out.counters.get("reports:external", 0) + 1
        # the par driver's own verdicts belong to C06


def memcheck(out, vh, wdir, seed, tier):
    """valgrind memcheck on the plain build for a small subset (uninitialised reads inside allocations are invisible to ASan)."""
    supp = "/usr/share/openmpi/openmpi-valgrind.supp"
    jobs = [("bounds", 0, 12), ("gfdef", 2, 8), ("susc", 2, 6), ("g2def", 3, 5), ("index", 0, 20), ("lattice", 0, 10), ("trunc", 0, 4)]
    import concurrent.futures as cf

    def go(job):
        driver, lo, hi = job
        outp = os.path.join(wdir, "memcheck.%s.out" % driver)
        errp = os.path.join(wdir, "memcheck.%s.err" % driver)
        cmd = ["valgrind", "--tool=memcheck", "--error-exitcode=0", "--num-callers=30", "--track-origins=no", "--leak-check=no", "--child-silent-after-fork=no", "-q"]
        if os.path.exists(supp):
            cmd.append("--suppressions=" + supp)
        cmd += [vh, driver, "--seed", str(seed), "--tier", "quick", "--from", str(lo), "--to", str(hi), "--out", outp]
        env = runner.base_env({"VH_STDERR_MARKERS": "1"})
        try:
            with open(errp, "wb") as ef:
                subprocess.run(cmd, stdout=subprocess.DEVNULL, stderr=ef, env=env, cwd=wdir, timeout=3000)
        except subprocess.TimeoutExpired:
            return driver, None
        return driver, errp

    with cf.ThreadPoolExecutor(max_workers=7) as ex:
        for driver, errp in ex.map(go, jobs):
            if errp is None:
                out.inconclusive.append("memcheck run of %s timed out" % driver)
                continue
            txt = open(errp, "r", errors="replace").read()
            n = 0
            for rep in sanitizer_logs.parse_text(txt):
                if rep["tool"] != "memcheck":
                    continue
                n += 1
                key = "C17:memcheck:%s:%s" % (rep["kind"], rep["site"])
                wit = dict(driver=driver, flavour="P-real", case=rep["case"], monitor="memcheck", detail=rep["text"][:3500], replay_special="memcheck")
                if rep["owner"] == "library":
                    out.add_violation(key, wit)
                elif rep["owner"] == "harness":
                    out.infra.append("memcheck report inside harness code (%s case %s): %s" % (driver, rep["case"], rep["text"][:800]))
                else:
                    out.counters["reports:external"] = out.counters.get("reports:external", 0) + 1
            out.counters["memcheck_reports"] = out.counters.get("memcheck_reports", 0) + n
            out.counters["memcheck_runs"] = out.counters.get("memcheck_runs", 0) + 1
