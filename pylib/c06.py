"""C06: results independent of MPI ranks / OpenMP threads; runs always terminate.  MPI launches of the `par` driver + TSan/Archer run."""
import glob, os, subprocess, sys, time
from . import build, engine, mpirun, runner

sys.path.insert(0, os.path.join(build.VERIF, "monitors"))
import sanitizer_logs  # noqa: E402
import dispatch_log  # noqa: E402

RULE = ("launches = mpiexec -np P vh par for P in the tier's rank list x OMP_NUM_THREADS x delay-hook seeds; each case = generated model (N=2..4) x partition x 1-2 stand-alone TwoParticleGF::compute(clear, freqs|none, comm) "
        "x TwoParticleGFContainer::computeAll(clear, freqs|none, comm, split|nosplit) with 1-5 components (fewer than / equal to / non-multiple of / more than the rank count, some vanishing); every rank first computes the "
        "reference on MPI_COMM_SELF with one thread and compares locally: spectrum, ground energy, tables where the interface delivers them (root for TwoParticleGF::compute and nosplit, every rank for split), the term "
        "representation on a 27-point grid on every rank, evaluability of every listed element; eigen-data hashes gathered and compared across ranks; termination by watchdog + hook event logs; "
        "plus the table path with 8 OpenMP threads under ThreadSanitizer+Archer (clang/libomp build); non-trivial = the case's stand-alone 2PGF has >=1 part; distinct = (P, threads, delay seed, case)")


def tsan_run(out, seed, tier, wdir):
    try:
        vh = build.build_harness("T-real")
    except Exception as e:
        out.infra.append("T-real build failed: " + str(e)[-1500:])
        return
    n = runner.ncases(vh, "par", tier, runner.base_env())
    n = min(n, 8 if tier == "quick" else 40)
    env = runner.base_env({"OMP_NUM_THREADS": "8", "TSAN_OPTIONS": "ignore_noninstrumented_modules=1:halt_on_error=0:report_signal_unsafe=0:history_size=4",
                           "VH_STDERR_MARKERS": "1", "OMP_TOOL_LIBRARIES": "/usr/lib/llvm-14/lib/libarcher.so", "ARCHER_OPTIONS": "verbose=0"})
    outp = os.path.join(wdir, "tsan.par.out")
    errp = os.path.join(wdir, "tsan.par.err")
    t0 = time.time()
    try:
        with open(errp, "wb") as ef:
            p = subprocess.run([vh, "par", "--seed", str(seed), "--tier", tier, "--from", "0", "--to", str(n), "--out", outp], stdout=subprocess.DEVNULL, stderr=ef, env=env, cwd=wdir, timeout=1800)
    except subprocess.TimeoutExpired:
        out.inconclusive.append("TSan run timed out")
        return
    cases, open_case, ended = runner.parse_out(outp)
    txt = open(errp, "r", errors="replace").read()
    nrep = 0
    for rep in sanitizer_logs.parse_text(txt):
        if rep["tool"] != "tsan":
            continue
        nrep += 1
        key = "C06:tsan:%s:%s" % (rep["kind"], rep["site"])
        wit = dict(driver="par", flavour="T-real", case=rep["case"], monitor="tsan", detail=rep["text"][:3500], replay_special="tsan")
        if rep["owner"] == "library":
            out.add_violation(key, wit)
        elif rep["owner"] == "harness":
            out.infra.append("TSan report inside harness code: " + rep["text"][:800])
        else:
            out.counters["tsan_external_reports"] = out.counters.get("tsan_external_reports", 0) + 1
    if not ended or p.returncode != 0:
        out.infra.append("TSan run of par ended abnormally rc=%s open case %s; stderr tail: %s" % (p.returncode, open_case, txt[-800:]))
    out.extra.update(dict(tsan_cases=len(cases), tsan_threads=8, tsan_reports=nrep, tsan_wall_s=round(time.time() - t0, 1),
                          tsan_archer=("Archer" in txt or os.path.exists("/usr/lib/llvm-14/lib/libarcher.so"))))
    for c in cases:
        # the value monitors also hold in this build (single process, 8 threads)
        cc = dict(c); cc["canon"] = "tsan|" + str(c.get("canon"))
        out.add_case(cc, "par", "T-real")


def run(tier, seed):
    pid, driver = "C06", "par"
    out = engine.Outcome(pid, tier, seed)
    try:
        vhs = build.build_many(["P-real", "P-cplx"])
        vh = vhs["P-real"]
    except Exception as e:
        print("HARNESS-FAILURE: build failed:\n" + str(e)[-6000:])
        out.infra.append("build failed")
        engine.finish(out, rule=RULE, min_nontrivial=2)
        return 2
    wdir = runner.work_dir(pid + "-" + tier)
    # (ranks, OpenMP threads, delay seed, flavour)
    if tier == "quick":
        configs = [(1, 1, 0, "P-real"), (2, 1, 0, "P-real"), (3, 4, seed * 11 + 1, "P-real"), (4, 1, seed * 11 + 2, "P-real"), (2, 4, seed * 11 + 3, "P-real"), (3, 1, seed * 11 + 4, "P-cplx")]
        timeout = 60
    else:
        configs = []
        for i, P in enumerate([1, 2, 3, 4, 5, 6, 7, 8, 11, 16]):
            for j, T in enumerate([1, 2, 4, 16] if P <= 4 else [1, 2]):
                configs.append((P, T, 0 if (i + j) % 3 == 0 else seed * 13 + 10 * i + j, "P-cplx" if (i + j) % 4 == 1 else "P-real"))
        timeout = 600
    n = runner.ncases(vh, driver, tier, runner.base_env())
    import concurrent.futures as cf

    def go(cfg):
        P, T, dseed, fl = cfg
        env = {"OMP_NUM_THREADS": str(T)}
        if dseed:
            env.update({"POMEROL_VERIF_DELAY_SEED": str(dseed), "POMEROL_VERIF_DELAY_US": "800", "POMEROL_VERIF_DELAY_P": "0.5"})
        cases, incidents, launches = mpirun.run_cases(vhs[fl], driver, P, seed, tier, n, wdir, "par.%s.t%d.d%d" % (fl, T, dseed), env, timeout)
        logstats = []
        for L in launches:
            per_rank = dispatch_log.parse(L["logdir"])
            maps = set()
            ev = 0
            for r, evs in per_rank.items():
                ev += len(evs)
                cur = []
                for e in evs:
                    if e[4] == "map":
                        cur.append((e[5], e[6]))
                    elif e[4] == "round_end" and r == 0:
                        maps.add(tuple(cur)); cur = []
            logstats.append((ev, len(maps)))
        return cfg, env, cases, incidents, launches, logstats

    with cf.ThreadPoolExecutor(max_workers=3 if tier == "quick" else 2) as ex:
        results = list(ex.map(go, configs))
    nlaunch = nev = nmaps = 0
    cfgs = []
    for (cfg, env, cases, incidents, launches, logstats) in results:
        P, T, dseed, fl = cfg
        nlaunch += len(launches)
        cfgs.append(dict(P=P, threads=T, delay_seed=dseed, flavour=fl, cases=len(cases)))
        for (ev, m) in logstats:
            nev += ev; nmaps += m
        for c in cases:
            c = dict(c); c["canon"] = "P=%d|T=%d|d=%d|%s|%s" % (P, T, dseed, fl, c.get("canon"))
            out.add_case(c, driver, fl)
            for v in c.get("violations", []):
                w = out.violations.get(v["key"])
                if w is not None and "np" not in w:
                    w.update(dict(np=P, env=env, replay_special="mpi", flavour=fl))
        for inc in incidents:
            inc["env"] = env
            if inc["kind"] == "hang":
                ev = inc["evidence"]
                last, mpifn, lib = mpirun.blocking_site(ev)
                enters = sorted({r["last_kind"] for r in ev["ranks"].values() if r["last_kind"] and r["last_kind"].endswith("_enter")})
                site = lib if lib != "?" else ("+".join(enters) or "mpi=" + mpifn)
                key = "%s:hang:%s:%s" % (pid, driver, site)
                out.add_violation(key, dict(driver=driver, flavour=fl, case=inc["case"], monitor="watchdog+event-log", np=inc["np"], env=env, replay_special="mpi",
                                            detail="mpiexec -np %d (threads %s) did not finish case %s within %ds twice and no rank logged a dispatcher event in the second half of either window; last events per rank %s; MPI calls %s; library frames %s; backtraces %s" % (
                                                inc["np"], env.get("OMP_NUM_THREADS"), inc["case"], timeout, {r: v["last_kind"] for r, v in ev["ranks"].items()}, mpifn, lib, {p: fr[:10] for p, fr in list(ev.get("backtraces", {}).items())[:3]})))
            elif inc["kind"] in ("slow", "slow-twice"):
                out.inconclusive.append("np=%d case %s exceeded the watchdog (%s) while ranks were still active" % (inc["np"], inc.get("case"), inc["kind"]))
            elif inc["kind"] == "stopped":
                out.counters["launches_stopped_early"] = out.counters.get("launches_stopped_early", 0) + 1
            elif inc["kind"] == "crash":
                site = engine.crash_site_from_stderr(inc.get("stderr") or "") or "rc%s" % inc.get("rc")
                out.add_violation("%s:crash:%s:%s" % (pid, driver, site), dict(driver=driver, flavour=fl, case=inc["case"], monitor="crash", np=inc["np"], env=env, replay_special="mpi",
                                                                           detail="mpiexec -np %d died in case %s rc=%s; stderr tail: %s" % (inc["np"], inc["case"], inc.get("rc"), (inc.get("stderr") or "")[-2500:])))
            else:
                out.infra.append("np=%d launch failed outside a case rc=%s: %s" % (inc["np"], inc.get("rc"), (inc.get("stderr") or "")[-1200:]))
    tsan_run(out, seed, tier, wdir)
    out.extra.update(dict(mpi_launches=nlaunch, hook_events_logged=nev, distinct_job_rank_maps_in_logs=nmaps, configurations=cfgs, watchdog_s=timeout))
    return engine.finish(out, rule=RULE, min_nontrivial=20 if tier == "quick" else 200, assumptions=[
        "schedules are sampled (rank counts, thread counts, injected dispatcher delays), not enumerated; TSan sees only the parallel regions the workload runs",
        "OpenMP races are detected with clang/libomp + Archer instead of the pinned gcc/libgomp (libgomp's barriers are invisible to TSan); OpenMP data races are defined at source level",
        "OpenMPI / Boost.MPI are trusted"])
