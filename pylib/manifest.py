"""Regenerate MANIFEST.json from the checks table (bin/verif manifest)."""
import json, os
from . import build, checks

LEVEL_TEXT = {}


def generate():
    props = [json.loads(l) for l in open(os.path.join(build.VERIF, "properties.jsonl"))]
    man = dict(version=1,
               setup_cmd="bin/verif setup",
               hooks=dict(guard="POMEROL_VERIF", enable="-DCMAKE_CXX_FLAGS=-DPOMEROL_VERIF (set by bin/verif for every flavour it builds)",
                          baseline_off_cmd="bin/verif baseline-off", source_commits=checks.HOOK_COMMITS, add_only=True),
               engines=[dict(name="vh", path="harness/", serves_properties=sorted(checks.claimed()),
                             kind_free_text="C++ harness linked against libpomerol rebuilt from /repo per flavour (plain, ASan+UBSan+Eigen-precondition, TSan+Archer); monitors = reference-model oracles, invariants, offline log checkers; Python front end bin/verif")],
               checks=[], not_applicable=[],
               notes="Runtime monitoring and sanitizers. See DESIGN.md. Exit codes: 0 held on everything observed, 1 violation (VIOLATION line), 2 harness failure / inconclusive.")
    for p in props:
        pid = p["id"]
        if pid in checks.claimed():
            info = checks.info(pid)
            man["checks"].append(dict(property_id=pid,
                                      quick_cmd="bin/verif check %s --tier quick" % pid,
                                      thorough_cmd="bin/verif check %s --tier thorough" % pid,
                                      evidence_file="evidence/%s.json" % pid,
                                      replay_cmd_template="bin/verif replay {path}",
                                      engine="vh",
                                      level_claimed=dict(category="exploration", text=info["level_text"], design_ref=info["design_ref"]),
                                      level_note=info["level_note"],
                                      technique=info["technique"]))
        else:
            man["not_applicable"].append(dict(property_id=pid, reason=checks.NOT_YET.get(pid, "check not built yet in this round; planned in DESIGN.md section 3")))
    json.dump(man, open(os.path.join(build.VERIF, "MANIFEST.json"), "w"), indent=1)
    return man
