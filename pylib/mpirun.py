"""Launch harness drivers under mpiexec with a watchdog, hang evidence (hook event logs + gdb backtraces) and resume."""
import glob, os, re, shutil, signal, subprocess, time

from . import runner

KIND_NAMES = ["world", "dup", "split-equal-rounds", "split-unequal-rounds", "subset", "raw-boss-works", "raw-boss-idle"]


def read_log_tail(path, n=6):
    try:
        with open(path, "rb") as f:
            f.seek(0, 2)
            sz = f.tell()
            f.seek(max(0, sz - 4096))
            lines = f.read().decode(errors="replace").splitlines()
        return lines[-n:]
    except Exception:
        return []


def parse_event(line):
    p = line.split()
    if len(p) < 7:
        return None
    try:
        return dict(seq=int(p[0]), t=int(p[1]), rank=int(p[2]), round=int(p[3]), kind=p[4], a=int(p[5]), b=int(p[6]))
    except ValueError:
        return None


def collect_hang_evidence(logdir, out_prefix, t_start_ns, np):
    now = time.monotonic_ns()
    ev = dict(window_s=(now - t_start_ns) / 1e9, ranks={})
    for r in range(np):
        tail = read_log_tail(os.path.join(logdir, "rank%d.log" % r))
        last = None
        for l in reversed(tail):
            last = parse_event(l)
            if last:
                break
        ev["ranks"][r] = dict(tail=tail, last_kind=last["kind"] if last else None, last_age_s=((now - last["t"]) / 1e9) if last else None)
    # backtraces of the ranks that are still alive
    try:
        pids = subprocess.run(["pgrep", "-f", out_prefix], stdout=subprocess.PIPE).stdout.decode().split()
    except Exception:
        pids = []
    bts = {}
    for pid in pids[:20]:
        try:
            cmdline = open("/proc/%s/cmdline" % pid, "rb").read().decode(errors="replace")
            if "mpiexec" in cmdline or "orterun" in cmdline or "gdb" in cmdline or "pgrep" in cmdline:
                continue
            p = subprocess.run(["gdb", "-q", "-batch", "-p", pid, "-ex", "bt 30"], stdout=subprocess.PIPE, stderr=subprocess.DEVNULL, timeout=60)
            txt = p.stdout.decode(errors="replace")
            frames = [l for l in txt.splitlines() if l.startswith("#")]
            bts[pid] = frames[:30]
        except Exception:
            pass
    ev["backtraces"] = bts
    return ev


def blocking_site(ev):
    """Smallest stable description of where the ranks are stuck."""
    kinds = sorted({r["last_kind"] for r in ev["ranks"].values() if r["last_kind"]})
    mpi_fn = set()
    for frames in ev.get("backtraces", {}).values():
        for fr in frames:
            m = re.search(r"\b(P?MPI_[A-Za-z_]+|ompi_coll_[a-z_]+|mca_pml_ob1_(?:recv|send|iprobe))\b", fr)
            if m:
                mpi_fn.add(re.sub(r"^P(?=MPI_)", "", m.group(1)))
                break
    lib = set()
    for frames in ev.get("backtraces", {}).values():
        for fr in frames:
            m = re.search(r"((?:Pomerol|pMPI)::[A-Za-z_0-9:<>]+)", fr)
            if m:
                lib.add(re.sub(r"<.*>", "<>", m.group(1)))
                break
    return "+".join(kinds) or "no-events", "+".join(sorted(mpi_fn)) or "?", "+".join(sorted(lib)) or "?"


def is_stalled(ev):
    """No rank logged an event during the second half of the window (ranks without any event count as silent)."""
    half = ev["window_s"] / 2.0
    for r in ev["ranks"].values():
        if r["last_age_s"] is not None and r["last_age_s"] < half:
            return False
    return True


def launch(vh, driver, np, seed, tier, lo, hi, wdir, tag, env_extra, timeout, extra_args=None, mpiexec_args=None):
    out = os.path.join(wdir, tag + ".out")
    for f in glob.glob(out + ".rank*"):
        os.remove(f)
    logdir = os.path.join(wdir, tag + ".logs")
    shutil.rmtree(logdir, ignore_errors=True)
    os.makedirs(logdir)
    env = runner.base_env(env_extra)
    env["VH_MPI_RUN"] = "1"
    env["POMEROL_VERIF_LOG_DIR"] = logdir
    vhcmd = vh if isinstance(vh, list) else [vh]      # a list allows a wrapper such as valgrind in front of the harness binary
    cmd = ["mpiexec", "--oversubscribe", "-np", str(np)] + (mpiexec_args or []) + vhcmd + [driver, "--seed", str(seed), "--tier", tier, "--from", str(lo), "--to", str(hi), "--out", out] + (extra_args or [])
    errp = os.path.join(wdir, tag + ".err")
    t0 = time.monotonic_ns()
    res = dict(np=np, tag=tag, logdir=logdir, timed_out=False, evidence=None)
    with open(errp, "wb") as ef:
        p = subprocess.Popen(cmd, stdout=subprocess.DEVNULL, stderr=ef, env=env, cwd=wdir, start_new_session=True)
        try:
            res["rc"] = p.wait(timeout=timeout)
        except subprocess.TimeoutExpired:
            res["timed_out"] = True
            res["evidence"] = collect_hang_evidence(logdir, out, t0, np)
            try:
                os.killpg(p.pid, signal.SIGKILL)
            except Exception:
                pass
            res["rc"] = p.wait()
            subprocess.run(["pkill", "-9", "-f", out], stdout=subprocess.DEVNULL, stderr=subprocess.DEVNULL)
            for sd in glob.glob(os.path.join(os.environ.get("TMPDIR", "/tmp"), "ompi.*", "pid.%d" % p.pid)):
                shutil.rmtree(sd, ignore_errors=True)      # session directory of the killed mpiexec (8 MB each, never reclaimed otherwise)
    res["wall"] = (time.monotonic_ns() - t0) / 1e9
    res["ranks"] = {}
    for r in range(np):
        res["ranks"][r] = runner.parse_out(out + ".rank%d" % r)
    try:
        res["stderr"] = open(errp, "r", errors="replace").read()[-6000:]
    except Exception:
        res["stderr"] = ""
    return res


def run_cases(vh, driver, np, seed, tier, ncases, wdir, tag, env_extra, timeout, on_launch=None, extra_args=None, max_incidents=3):
    """Run cases [0,ncases) under np ranks, resuming after a hang/crash. Returns (rank0_cases, incidents, launches)."""
    cases, incidents, launches = [], [], []
    cur, attempt, startup_failures = 0, 0, 0
    while cur < ncases:
        res = launch(vh, driver, np, seed, tier, cur, ncases, wdir, "%s.np%d.%d" % (tag, np, attempt), env_extra, timeout, extra_args)
        attempt += 1
        launches.append(res)
        if on_launch:
            on_launch(res)
        c0, open0, ended0 = res["ranks"][0]
        cases.extend(c0)
        all_ended = all(res["ranks"][r][2] for r in res["ranks"])
        if all_ended and res["rc"] == 0 and not res["timed_out"]:
            break
        # which case is open? the smallest open case over ranks
        opens = [res["ranks"][r][1] for r in res["ranks"] if res["ranks"][r][1] is not None]
        if not opens and not c0 and not res["timed_out"] and startup_failures < 3:
            startup_failures += 1        # mpiexec or a rank died before the first case began (start-up failure on a loaded machine): try again
            time.sleep(2.0 * startup_failures)
            continue
        if not opens:
            incidents.append(dict(kind="infra", np=np, rc=res["rc"], stderr=res["stderr"], timed_out=res["timed_out"]))
            break
        k = min(opens)
        if res["timed_out"]:
            # second opinion: the same case alone
            res2 = launch(vh, driver, np, seed, tier, k, k + 1, wdir, "%s.np%d.retry%d" % (tag, np, k), env_extra, timeout, extra_args)
            launches.append(res2)
            if res2["timed_out"]:
                stalled = is_stalled(res["evidence"]) and is_stalled(res2["evidence"])
                incidents.append(dict(kind="hang" if stalled else "slow-twice", np=np, case=k, evidence=res2["evidence"], evidence_first=res["evidence"], logdir=res2["logdir"]))
            else:
                c20 = res2["ranks"][0][0]
                cases.extend(c20)
                incidents.append(dict(kind="slow", np=np, case=k))
        else:
            incidents.append(dict(kind="crash", np=np, case=k, rc=res["rc"], stderr=res["stderr"]))
        cur = k + 1
        # a tree that hangs or crashes in case after case is not explored to the end: three incidents decide the launch
        if sum(1 for i in incidents if i["kind"] in ("hang", "crash", "slow-twice")) >= max_incidents:
            incidents.append(dict(kind="stopped", np=np, case=cur, note="stopped after %d incidents; cases from %d on were not run" % (max_incidents, cur)))
            break
    return cases, incidents, launches
