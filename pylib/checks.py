"""Table of checks: property id -> how it is decided."""
from . import engine

P2 = ["P-real", "P-cplx"]

TRUST = ["Eigen dense self-adjoint eigen-solver, LU and MatrixFunctions::exp used by the oracles",
         "the harness's own Jordan-Wigner construction (self-checked at start-up of every case batch)",
         "held on the executions observed only; nothing is claimed for inputs/schedules that were not run"]

VH = {
    "C03": dict(drivers=[dict(driver="ham", flavours=P2, timeout=30)],
                floor=dict(quick=60, thorough=600),
                rule="cases = generated (lattice, terms, parameter class, partition mode[, custom integrals of motion]) x {real,complex build}; "
                     "non-trivial = H has off-diagonal elements, dim >= 4 and (>= 2 blocks or symmetries ignored); distinct = hash of the canonical model description + partition"),
}


HOOK_COMMITS = []
NOT_YET = {}

INFO = {
    "C03": dict(technique="runtime differential monitor: library block ED vs dense Jordan-Wigner full-space ED on generated models/partitions",
                level_text="Every reported eigenpair, block matrix, ground energy and look-up of the real library is compared with an independent dense full-space diagonalisation on hundreds (quick) / thousands (thorough) of generated models x partitions x {real,complex}; held on what was run, not a proof.",
                level_note="Trusts Eigen's dense eigen-solver and the harness's 50-line Jordan-Wigner construction; model size N <= 6 (quick) / 8 (thorough).",
                design_ref="DESIGN.md section 3, C03"),
}


def claimed():
    return set(VH.keys()) | set(SPECIAL.keys())


def info(pid):
    return INFO[pid]


SPECIAL = {}


def run(pid, tier, seed):
    if pid in SPECIAL:
        return SPECIAL[pid](tier, seed)
    if pid in VH:
        s = VH[pid]
        return engine.run_vh_check(pid, tier, seed, s["drivers"], s["rule"], s["floor"][tier], TRUST, extra=s.get("extra"))
    print("HARNESS-FAILURE: no check registered for %s" % pid)
    return 2
