"""Table of checks: property id -> how it is decided."""
from . import engine

P2 = ["P-real", "P-cplx"]

TRUST = ["Eigen dense self-adjoint eigen-solver, LU and MatrixFunctions::exp used by the oracles",
         "the harness's own Jordan-Wigner construction (self-checked at start-up of every case batch)",
         "held on the executions observed only; nothing is claimed for inputs/schedules that were not run"]

VH = {
    "C05": dict(drivers=[dict(driver="opalg", flavours=P2, timeout=30)],
                floor=dict(quick=300, thorough=3000),
                rule="cases = exhaustive blocks (all 1927 monomials of length <= 4 over M = 1,2,3 modes; all ordered monomial pairs of total length <= 4 (quick) / <= 6 (thorough) with product, "
                     "commutator, anticommutator and commutes(); all triples of length-<=2 monomials over M <= 2 (quick) / <= 3 (thorough) for associativity; all (i,j) < M <= 6 for the CAR; all ordered pairs of the 154 (M=2) / 310 (M=3, thorough) operators {b, p+q, p*q, p-q : b,p,q in 1,c_i,c+_i,n_i} for commutes()) "
                     "+ generated N/Sz shortcut cases + generated equality-pair cases + random polynomials (M <= 6 quick / 8 thorough, 1-6 monomials of length 0-8, well separated coefficients, "
                     "complex ones in the complex build) + wide-ket cases (Fock states of 24..200 modes, random 1-3-term polynomials of length <= 4 with indices biased to the 32/64-bit word boundaries, action "
                     "compared with a bit-wise Jordan-Wigner reference through actRight, getMatrixElement and the static actRight(monomial, ket)) x {real,complex build}; every library operator is observed through actRight/getMatrixElement on all Fock states and through its stored "
                     "monomials; oracle = dense Jordan-Wigner matrix algebra, tolerance 1e-12 x sum|coefficients|; non-trivial = part of an exhaustive enumeration or >= 1 library "
                     "product/commutator with both operands having >= 2 stored monomials; distinct = enumeration block / hash of the generated polynomials"),
    "C15": dict(drivers=[dict(driver="vertex", flavours=P2, timeout=60)],
                floor=dict(quick=20, thorough=200),
                rule="cases = (a) MatsubaraContainer4<CountingSource> x window size NM (quick 0,1,2,3,4,6 / thorough 0..8,12,16) x phase (fresh, refill after a larger window, refill after a smaller window, "
                     "random fill chain through NM=0), whole box [-NM-3,NM+2]^3 read exhaustively with an injective call-logging source: stored set F observed from the calls made by fill(); "
                     "(b) generated models (N=2..4, default partition) x index quadruples (all for N=2, else ~8 incl. all-equal, i=j, k=l, cross-spin) x NM in a random order of {0,1,2,3} on one Vertex4 object, "
                     "box [-NM-2,NM+1]^3 (whole box for N=2; for N>=3 the work is bounded by the structural cost proxy P4 = sum over blocks of size^4: P4<=600 whole boxes for NM<=1 and 100-point structured samples for NM=2,3; "
                     "P4<=3000 3 quadruples, NM in {0,1,2}, 30-point samples; larger 2 quadruples, 8-point samples; samples always contain both-delta / single-delta / no-delta points inside and outside the window; thorough doubles the sample sizes): "
                     "V() vs V.value() bit-for-bit, V.value() vs chi - chi0 assembled from the documented formula; x {real,complex build}; "
                     "non-trivial = (a) NM>=1, (b) some quadruple with |chi|>1e-10 and a Wick term >1e-10 observed; distinct by NM|phase|fill sequence resp. canonical model + quadruples"),
    "C18": dict(drivers=[dict(driver="index", flavours=P2, timeout=30)],
                floor=dict(quick=200, thorough=6000),
                rule="two kinds of cases. (A) bijection: random lattice (1-4 sites, hostile labels, 1-3 orbitals x 1-3 spins per site, ~60% heterogeneous, <=12 modes) x both ordering modes, "
                     "each (lattice, mode) probed in a forked child (a crash is an observation); monitors compare size, getInfo, getIndex (both overloads), round trips, injectivity, surjectivity, "
                     "out-of-range behaviour with the INPUT site list; non-trivial = >=2 sites and (heterogeneous or >=2 orbitals somewhere). "
                     "(B) invariance: generated model built in default order, spin-major order (only if all sites have equal spin counts) and with injectively renamed sites; sorted spectrum, "
                     "<n_i>, G_ij(i w_n) (n=0,1,-1,5; all pairs for N<=4, else diagonal + sample) must agree under the permutation read off the two classifications; G tolerance = sum of the two "
                     "variants' derived truncation bounds (dropped residues / pole merging, as in C01); non-trivial = the induced permutation is not the identity for at least one variant; "
                     "distinct by lattice description (A) / canonical model + renaming (B)"),
    "C04": dict(drivers=[dict(driver="presets", flavours=P2, timeout=60)],
                floor=dict(quick=1200, thorough=24000),
                rule="cases = schedule entry (every LatticePresets::add* overload/variant alone, every Term factory alone through addTerm, raw user terms of 2/4/6 operators by class, "
                     "sums of 2-6 ingredients, SU(2) commutator cases) x random lattice (1-3 sites, 1-3 orbitals, 1-3 spins, random labels, optional spin-major order) x parameter class "
                     "{generic, integers, negative, zero-mix} x {real,complex build}; oracle = doc comments of LatticePresets.h transcribed to Jordan-Wigner matrices; "
                     "non-trivial = N >= 2 and (documented operator non-zero, or the input contains a non-zero-amplitude user term that vanishes by the Pauli principle); distinct = canonical lattice + call sequence"),
    "C08": dict(drivers=[dict(driver="partinv", flavours=P2, timeout=240)],
                floor=dict(quick=30, thorough=2400),
                rule="cases = one generated model computed under 2-4 partitions (default analysis, symmetries ignored, 1-2 custom sets of confirmed-conserved integer-linear integrals of motion); all pipelines run in full; "
                     "pairwise monitors against the first partition: sorted spectrum, ground energy, <E>, <N>, <n_i>, <n_i n_j>, <c+_a c_b>, G_ij (4 Matsubara numbers + tau) for all diagonal and 6 off-diagonal pairs, "
                     "susceptibility (3 bosonic numbers + tau) for 5 operator pairs, chi4 for 3 quadruples x 6 triples when N<=3(4); tolerances = sum of both runs' documented-reduction allowances; "
                     "non-trivial = the partitions have different block counts and N>=2; distinct by model + partition set"),
    "C19": dict(drivers=[dict(driver="trunc", flavours=P2, timeout=120)],
                floor=dict(quick=40, thorough=4000),
                rule="cases = generated model x beta in [1,200] x eps in {0,1e-14,1e-10,1e-6,1e-3,1e-2,0.3}; one pipeline, observables built twice: with the untruncated DensityMatrix and with a second DensityMatrix after a sequence of truncateBlocks calls (single / larger tolerance first / smaller first / repeated, each call with a random verbose flag) ending in truncateBlocks(eps); "
                     "monitors: discarded block => all its weights <= eps; |dG|<=2 eps dim/|w_n| (and 2 eps dim in tau), |d<c+c>|<=eps dim, |d chi(iW)|<=eps dim max(1/|W|,beta), |d chi(tau)|<=eps dim, |d chi4|<=eps dim^2 beta^3; eps=0 => identical; a GFContainer computed after the first request and prepared/computed again after the last equals a fresh one; "
                     "non-trivial = >=2 blocks and (>=1 block discarded or eps=0); distinct by model+eps"),
    "C13": dict(drivers=[dict(driver="g2cont", flavours=P2, timeout=120)],
                floor=dict(quick=40, thorough=1600),
                rule="cases = random call histories (3-12 calls) on one TwoParticleGFContainer over a small generated model (N=2..3 quick, ..4 thorough): prepareAll(random index sets, repeated), "
                     "computeAll(split / nosplit), on-demand operator()(q) [+prepare][+compute], evaluations at random Matsubara triples of touched quadruples and their exchange partners; the precondition "
                     "'prepared and computed' is read from the element's own status; monitors: container value == stand-alone TwoParticleGF for the same quadruple, both exchange identities, every listed "
                     "element evaluable after a bulk computation; stored/alias by pointer identity; non-trivial = >=1 evaluation and (>=1 bulk compute or >=1 alias evaluation); distinct = model + history"),
    "C20": dict(drivers=[dict(driver="lattice", flavours=P2, timeout=30)],
                floor=dict(quick=300, thorough=10000),
                rule="cases = random call histories (5-40 calls) over one Lattice x {real,complex build}: addSite, raw addTerm (orders 2/4/6; valid, unknown label / orbital / spin out of range at each position, zero amplitude), "
                     "all Term::Presets factories, all LatticePresets entries (valid and every documented kind of invalid argument), getSite/getSiteMap/getTerms/getMaxTermOrder, copy construction; "
                     "after every call the real lattice is compared with a sequential reference model (label -> sizes, per-order term lists); calls expected to be refused and all getSite look-ups are rehearsed in a forked child; "
                     "non-trivial = history has >= 1 accepted valid term/preset call, >= 1 rejected invalid call and >= 2 sites; distinct = the history itself"),
    "C12": dict(drivers=[dict(driver="wick", flavours=P2, timeout=240)],
                floor=dict(quick=20, thorough=1000),
                rule="cases = random Hermitian single-particle matrix h over all modes (classes generic / degenerate / zero / block-diagonal / rank-deficient / integers; complex in the complex build, spin-mixing allowed) "
                     "x beta x partition; monitors: G_ij(z) for all (i,j) at 3 Matsubara and 3 off-axis z vs LU inverse of (z-h); Vertex4::value on the 125-point grid {-2..2}^3 for all (N=2) or 10-30 quadruples must vanish "
                     "within 2*tol_chi + beta*(|G| tol_G' + |G'| tol_G); non-trivial = some chi non-zero and resonant terms present; distinct by model+partition"),
    "C11": dict(drivers=[dict(driver="gfsym", flavours=P2, timeout=60)],
                floor=dict(quick=30, thorough=3000),
                rule="cases = generated model x partition x {real,complex}, every 5th with beta in [200,2000] (beta*|pole| up to ~1e4); per index pair: conj symmetry at 4 random off-axis z, "
                     "z*G(z)->delta at |z|=1e4..1e8(1+|H|), Im G_ii(i w_n)<0, of_tau vs trace oracle at 7 points incl. 0 and beta, G_ii(tau)<=0, G(0+)+G(beta-)=-delta, G_ii(beta-)=-<n_i> (DensityMatrix), "
                     "16-point composite Gauss-Legendre transform of of_tau vs operator()(n); non-trivial = dim>=4 and non-zero bandwidth; distinct by model+partition"),
    "C14": dict(drivers=[dict(driver="susc", flavours=P2, timeout=60)],
                floor=dict(quick=40, thorough=4000),
                rule="cases = generated model (degenerate / near-degenerate classes over-represented) x partition x {real,complex}; per case all (N<=2) or 8-14 operator quadruples (a,b,c,d) incl. S_z-changing ones x "
                     "n in {0,+-1,2,-3,+-50} vs the bosonic definition integral (stable Lehmann of an independent ED, cross-checked with the two-block exponential for N<=4), of_tau on 6 points incl. 0 and beta vs the trace formula, "
                     "three ways of subtracting the disconnected part; non-trivial = some component non-zero and dim>=4; distinct by model+partition"),
    "C02": dict(drivers=[dict(driver="g2def", flavours=P2, timeout=240)],
                floor=dict(quick=20, thorough=200),
                rule="cases = generated model (N<=4 quick, <=5 thorough; degenerate classes over-represented) x partition x {real,complex}; per case 5-9 index quadruples (equal and distinct indices) x "
                     "14-24 Matsubara triples incl. n1=n3, n2=n3, n1+n2=-1 against the triple time-ordered integral evaluated by 4-block matrix exponentials (6 orderings); tables of compute(false,freqs) and "
                     "compute(true,freqs) vs on-demand on a 129-point grid; every 8th case cold (beta 150..1500); non-trivial = the exercised objects held >=1 resonant term and >=1 component is non-vanishing; distinct by model+partition"),
    "C10": dict(drivers=[dict(driver="fieldop", flavours=P2, timeout=60)],
                floor=dict(quick=40, thorough=1200),
                rule="cases = generated model x partition (default/ignored/custom integer-linear) x {real,complex}; for every index: c, c+ computed one by one and through FieldOperatorContainer, "
                     "c+_i c_j for all/sampled pairs; monitors: stored blocks (row- and column-major copies) rotated back with the stored eigenvectors == Jordan-Wigner matrix, stored c == adjoint of stored c+ "
                     "(assembled and per part), by-value copies of computed parts hold the same two matrices, block maps transposed, {c_i,c+_j}=delta_ij, {c_i,c_j}=0 assembled over all blocks; non-trivial = dim>=4 and H not diagonal; distinct by model+partition"),
    "C09": dict(drivers=[dict(driver="dm", flavours=P2, timeout=30)],
                floor=dict(quick=60, thorough=2000),
                rule="cases = generated model x partition (default/ignored/custom) x beta log-uniform in [1e-3,1e3] x stress class (none / uniform offset +-1e3..1e6 / bandwidth x10..1e3); "
                     "monitors: weights finite, >=0, sum to 1, pairwise Boltzmann ratios, weights vs independent log-sum-exp Gibbs state, <E>, <N>, <n_i>, <n_i n_j>, <c+_i c_j> vs full-space traces; "
                     "non-trivial = dim>=4 and non-zero bandwidth; distinct by model+partition+stress"),
    "C07": dict(drivers=[dict(driver="symm", flavours=P2, timeout=30)],
                floor=dict(quick=60, thorough=8000),
                rule="cases = generated lattice (heterogeneous spin/orbital counts, spinless sites, 3-spin sites) x Hamiltonian (with/without N, S_z conservation) x analysis mode "
                     "(default / ignored / custom candidates: integer-linear, decimal-linear, non-linear diagonal, non-conserved, conserved-but-non-diagonal); monitors computed independently from "
                     "Jordan-Wigner images: partition + address round trip, H block-diagonality, single-target of c_i, c+_i, c+_i c_j, getBlockMapping == independent image map, must-reject candidates rejected; "
                     "non-trivial = N>=2 and (>=2 blocks or symmetries ignored); distinct by model + mode + candidates"),
    "C01": dict(drivers=[dict(driver="gfdef", flavours=P2, timeout=60)],
                floor=dict(quick=40, thorough=400),
                rule="cases = generated model x partition (default / every 3rd: symmetries ignored) x {real,complex}; per case all (N<=4) or sampled index pairs x 12 Matsubara numbers "
                     "(-3..3, +-50, -51, +-1000) through stand-alone GreensFunction, GFContainer, the complex-argument overload and copies taken at each stage and computed again; every 6th case cold (beta 150..3000, weights underflow); oracle = full-space Lehmann sum of an independent ED, "
                     "cross-checked against the two-block matrix-exponential integral for N<=4(5); tolerance = dropped residues <=1e-8 / distance + pole-merge and like-term allowances "
                     "computed in the library's eigenbasis; non-trivial = H has off-diagonal elements and dim>=4; distinct by canonical model description + partition"),
    "C03": dict(drivers=[dict(driver="ham", flavours=P2, timeout=30)],
                floor=dict(quick=60, thorough=6000),
                rule="cases = generated (lattice, terms, parameter class, partition mode[, custom integrals of motion]) x {real,complex build}; "
                     "non-trivial = H has off-diagonal elements, dim >= 4 and (>= 2 blocks or symmetries ignored); distinct = hash of the canonical model description + partition"),
}


HOOK_COMMITS = ["541145e", "1eb77b5"]
NOT_YET = {}

INFO = {
    "C06": dict(technique="runtime differential monitor under mpiexec (every rank vs its own single-rank single-thread reference, eigen-data hashes across ranks), watchdog + hook-event-log hang decision, ThreadSanitizer+Archer on the OpenMP table path",
                level_text="The full workflow (distributed Hamiltonian, TwoParticleGF::compute, TwoParticleGFContainer::computeAll split and unsplit, with and without frequency tables and term purging) is executed for several rank counts, thread counts and injected dispatcher delays; every rank compares what the interface returns to it with a reference computed by itself on MPI_COMM_SELF; the OpenMP loop is additionally run under TSan with 8 threads; held on the sampled schedules only.",
                level_note="Schedules are sampled; the reference uses the same library on one rank (its correctness is C01-C03); OpenMPI/Boost.MPI trusted; TSan build uses clang+libomp+Archer.",
                design_ref="DESIGN.md section 3, C06"),
    "C17": dict(technique="sanitizers as the oracle: every workload of the other properties plus boundary probes executed by ASan+UBSan builds with Eigen precondition checks (real and complex), valgrind memcheck in the thorough tier; report blocks keyed by tool, kind and innermost library frame",
                level_text="The real library, rebuilt from the working tree with AddressSanitizer, UndefinedBehaviorSanitizer and Eigen's precondition checks switched on, executes the generated workloads of all other checks (index chasing on mismatching sparsity patterns, empty frequency lists, 1x1 blocks, heterogeneous lattices, boundary state labels); any report whose innermost frame is library code is a violation; memcheck covers uninitialised reads; this is 'no report on these executions', not memory safety.",
                level_note="Red-zone tools miss non-adjacent and intra-object overflows; only reached code is observed; leaks are not part of the property and are not counted; MSan is not used.",
                design_ref="DESIGN.md section 3, C17"),
    "C05": dict(technique="runtime differential monitor: Pomerol::Operator algebra, operator==, commutes, N/Sz shortcuts vs dense Jordan-Wigner matrix algebra; exhaustive for small (modes, length), random beyond",
                level_text="Every product, sum, difference, scalar multiple, commutator and anticommutator formed by the real library is compared as a matrix (through actRight/getMatrixElement on all Fock states and through the stored normal-ordered monomials) with the same expression of independent Jordan-Wigner matrices: exhaustively for all monomials of length <= 4 over <= 3 modes, all ordered pairs up to total length 4 (quick) / 6 (thorough), all triples of length-<=2 monomials, all CAR pairs for M <= 6, and on random polynomials up to 6 (8) modes and length 8; on Fock states of 24..200 modes the action of random polynomials is compared with a bit-wise reference; operator== and commutes() are compared with matrix equality on constructed pair classes; held on what was run, not a proof.",
                level_note="Trusts Eigen's dense products and the harness's 50-line Jordan-Wigner construction (self-checked); coefficients are drawn from a well separated set so the library's 100*eps erase window is never straddled.",
                design_ref="DESIGN.md section 3, C05"),
    "C15": dict(technique="runtime monitor: (a) exhaustive observation of MatsubaraContainer4 through an injective call-counting source (hit/miss observed, window derived from fill's own requests and compared with the documented window); (b) Vertex4 storage vs direct value bit-for-bit and direct value vs documented chi - chi0 on generated models",
                level_text="For every window size tried every triple of a box extending beyond the window on all sides is read through the storage; value, hit/miss status and forwarded call are observed, also after refills (grow, shrink, through 0). On generated models the vertex read through storage equals the direct value bit-for-bit and the direct value equals chi minus the documented Wick part; held on what was run.",
                level_note="chi and G are taken from the library objects (their own correctness is C01/C12); window sizes <= 6 quick / 16 thorough for the container, <= 3 for Vertex4; N <= 4.",
                design_ref="DESIGN.md section 3, C15"),
    "C16": dict(technique="runtime history monitor: exactly-once / map-agreement / termination checked from jobs and maps observed on every MPI rank, plus an offline checker over hook event logs (message conservation); watchdog + event-log hang decision",
                level_text="The real dispatcher (mpi_skel::run and the raw MPIMaster/MPIWorker loops) is run under mpiexec for many rank counts, job counts, consecutive rounds, communicator shapes and injected delays; every job execution and every returned map is collected from all ranks and checked, and the per-rank hook logs are checked offline for message conservation; schedules are sampled, the evidence counts the distinct job-to-rank maps actually seen.",
                level_note="Exhaustive interleavings are out of reach for this technique (see DESIGN.md section 7); OpenMPI and Boost.MPI are trusted; a hang is declared only after two watchdog expiries with silent event logs.",
                design_ref="DESIGN.md section 3, C16"),
    "C18": dict(technique="runtime monitor on generated lattices: IndexClassification observed in a forked child vs the input site list (bijection), plus metamorphic relabelling / re-ordering relation on full ED results",
                level_text="For thousands of generated lattices incl. heterogeneous orbital/spin counts and hostile labels, in both ordering modes, size, forward and inverse look-ups, injectivity, surjectivity and out-of-range behaviour are compared with the input; for generated models spectrum, occupancies and Green's functions are shown to change only by the induced index permutation when sites are renamed or the ordering mode is switched; held on what was run.",
                level_note="Label-hash collisions in IndexInfo::operator< cannot be reached by running and are not covered; invariance part N <= 6 (quick: 25% of the models may reach 6, thorough: 50%), default partition only; heterogeneous spin-major ordering is covered by the bijection part only.",
                design_ref="DESIGN.md section 3, C18"),
    "C04": dict(technique="runtime oracle monitor: Hamiltonian built by the library (IndexHamiltonian monomials and HamiltonianPart matrix, symmetries ignored) vs the documented operator written as dense Jordan-Wigner matrices",
                level_text="Every LatticePresets function and overload, every Term factory and raw user terms of 2, 4 and 6 operators (incl. Pauli-vanishing, number-non-conserving and mutually cancelling ones) are applied alone and in random sums to generated lattices; the resulting operator is compared element by element with an independent transcription of the header documentation, its Hermiticity and (Kanamori U'=U-2J, spin-spin exchange) its commutation with total S+- are monitored; held on what was run.",
                level_note="Trusts the harness's Jordan-Wigner construction and IndexClassification::getIndex (subject of another property); N <= 6 (8 for two equal multi-orbital sites) quick / 8 thorough.",
                design_ref="DESIGN.md section 3, C04"),
    "C08": dict(technique="runtime differential monitor: the same model under several accepted symmetry partitions, all observables compared pairwise",
                level_text="The full pipeline of the real library is run under default / ignored / custom partitions and every observable is compared pairwise with tolerances derived from the documented reductions in each run's own eigenbasis; held on what was run.",
                level_note="Custom partitions are restricted to integer-linear integrals of motion confirmed conserved by the harness (hostile candidates are C07's subject); dropped-term effects in the susceptibility are C14's subject and are allowed literally here.",
                design_ref="DESIGN.md section 3, C08"),
    "C19": dict(technique="runtime differential monitor: observables with truncated vs untruncated density matrix against explicit eps-proportional bounds; retain rule from the weights",
                level_text="The retain rule and the analytic bounds of DESIGN.md C19 are evaluated on the real objects for generated models up to beta=200 and eps up to 0.3 (most blocks discarded); held on what was run.",
                level_note="Weights are read from the library's DensityMatrix (their correctness is C09's subject); N <= 4 quick / 6 thorough, chi4 for N <= 3(4).",
                design_ref="DESIGN.md section 3, C19"),
    "C13": dict(technique="runtime history monitor: random prepareAll/computeAll/lookup/evaluate sequences on TwoParticleGFContainer vs stand-alone TwoParticleGF objects and the exchange identities",
                level_text="Hundreds (quick) / thousands (thorough) of random request histories are driven through the real container; each evaluable entry (stored or alias) is compared with an independently constructed two-particle Green's function and with its exchange partners; held on what was run.",
                level_note="Single-rank histories (multi-rank container behaviour is C06); the reference objects use the same library class for one quadruple at a time (its correctness is C02's subject).",
                design_ref="DESIGN.md section 3, C13"),
    "C20": dict(technique="runtime model-based monitor: random API call histories on Pomerol::Lattice / LatticePresets vs a sequential reference model of sites and accepted terms",
                level_text="Every call of ~1000 (quick) / ~50000 (thorough) random histories x {real,complex} is followed by a full comparison of the lattice (site map, per-order term lists, max order) with a reference model: invalid calls must throw and leave the lattice unchanged, "
                           "zero-amplitude terms must be ignored, valid raw terms must be appended verbatim, presets may only append terms with existing indices, term factories must equal their documented operator on Fock space, look-ups and copies must be faithful; held on what was run, not a proof.",
                level_note="Operator content of valid LatticePresets calls is C04's subject and not checked here; re-adding an existing label is not exercised; trusts the harness's Jordan-Wigner construction for the factory comparison.",
                design_ref="DESIGN.md section 3, C20"),
    "C12": dict(technique="runtime oracle monitor on quadratic models: GreensFunction vs LU inverse of (z-h), Vertex4::value vs 0 (Wick) on a full small frequency grid",
                level_text="For generated quadratic Hamiltonians (incl. fully degenerate and zero h, which reach every resonant-term branch) the real propagator is compared with the matrix inverse and the real vertex with zero at every frequency triple of a 5x5x5 grid; held on what was run.",
                level_note="Trusts Eigen LU; N <= 4; tolerances from the documented reductions evaluated per run.",
                design_ref="DESIGN.md section 3, C12"),
    "C11": dict(technique="runtime invariant/oracle monitors on GreensFunction::operator()(z), of_tau and DensityMatrix occupancies: symmetry, tail, sign, sum rules, quadrature duality",
                level_text="Analytic identities of the fermionic Green's function are evaluated on the real objects for generated models incl. beta*|pole| ~ 1e4 where the two overflow-avoiding branches of the tau formula matter; tolerances are the documented reductions evaluated per run; held on what was run.",
                level_note="Trusts Eigen and the Gauss-Legendre nodes; N <= 4 quick / 6 thorough.",
                design_ref="DESIGN.md section 3, C11"),
    "C14": dict(technique="runtime oracle monitor: Susceptibility values (frequency incl. W=0, imaginary time, disconnected part) vs definition integral from an independent full ED",
                level_text="Every returned value is compared with the definition, with the zero-frequency/degenerate case handled by a stable divided difference and by the exact block-exponential integral; a dropped Lehmann term is allowed to change the result only by O(residue*beta), so terms that are dropped although they carry O(1) weight are reported; held on what was run.",
                level_note="Trusts Eigen; N <= 4 quick / 6 thorough; reading of the documented thresholds (residue 1e-8, pole window 1e-8) as 'error at most ~1e-8*beta per term' is stated in DESIGN.md.",
                design_ref="DESIGN.md section 3, C14"),
    "C02": dict(technique="runtime oracle monitor: chi_ijkl(w1,w2;w3) vs the documented triple integral evaluated with Van Loan block-matrix exponentials (no Lehmann sum); table path vs on-demand path",
                level_text="On-demand values are compared with the definition integral (independent of any spectral representation) on models that maximise degeneracy and at coinciding/bosonic-zero frequencies; both table paths are compared with on-demand evaluation entry by entry; held on what was run.",
                level_note="Trusts Eigen's matrix exponential (cross-checked against the Lehmann oracle in C01); N <= 4 quick / 5 thorough, |n| small; tolerance gap-aware (1e-9*S unless distinct poles lie within 1e-6).",
                design_ref="DESIGN.md section 3, C02"),
    "C10": dict(technique="runtime oracle monitor: stored eigenbasis operator blocks rotated back with the stored eigenvectors vs Jordan-Wigner matrices; CAR assembled over blocks",
                level_text="Every stored block of c, c+ and c+c (both sparse copies, both construction routes) is transformed back to Fock space and compared with the independent Jordan-Wigner matrix, on generated models with degenerate spectra and several partitions, real and complex; held on what was run.",
                level_note="Uses the library's own eigenvectors for the rotation (their correctness is C03's subject); N <= 5 quick / 7 thorough.",
                design_ref="DESIGN.md section 3, C10"),
    "C09": dict(technique="runtime oracle monitor: DensityMatrix / EnsembleAverage vs independent full-space Gibbs state (log-sum-exp) incl. overflow/underflow stress",
                level_text="Weights and every average returned by the real library are compared with traces over an independent full-space ED for beta in [1e-3,1e3], bandwidths up to beta*W ~ 1e6 and offsets up to 1e6; held on what was run.",
                level_note="Trusts Eigen's eigen-solver; N <= 6 quick / 8 thorough; tolerances scale with beta*|E|max*1e-12 (eigenvalue agreement of two solvers).",
                design_ref="DESIGN.md section 3, C09"),
    "C07": dict(technique="runtime invariant monitor over StatesClassification / FieldOperator block maps vs independently computed Jordan-Wigner images, on generated lattices and hostile integral-of-motion candidates",
                level_text="The partition produced by the real symmetry analysis is checked state by state (coverage, round trip, block-diagonality of H, single-target of every elementary operator, block maps) against images computed independently, for default/ignored/custom analyses incl. candidates that must be rejected; held on what was run.",
                level_note="Hash collisions between different quantum-number vectors cannot be found by running; N <= 6 quick / 8 thorough.",
                design_ref="DESIGN.md section 3, C07"),
    "C01": dict(technique="runtime oracle monitor: returned G_ij(i w_n) vs definition integral (independent full ED Lehmann + Van Loan block exponential) on generated models",
                level_text="Every value returned by the stand-alone object, the container and both call overloads is compared with the definition on generated models incl. degenerate, near-degenerate, S_z- and N-breaking ones, in real and complex builds, with a per-run tolerance that allows exactly the documented reductions; held on what was run.",
                level_note="Trusts Eigen (eigen-solver, expm) and the harness's Jordan-Wigner construction; N <= 5 quick / 7 thorough; Matsubara axis only (off-axis z in C11).",
                design_ref="DESIGN.md section 3, C01"),
    "C03": dict(technique="runtime differential monitor: library block ED vs dense Jordan-Wigner full-space ED on generated models/partitions",
                level_text="Every reported eigenpair, block matrix, ground energy and look-up of the real library is compared with an independent dense full-space diagonalisation on hundreds (quick) / thousands (thorough) of generated models x partitions x {real,complex}; held on what was run, not a proof.",
                level_note="Trusts Eigen's dense eigen-solver and the harness's 50-line Jordan-Wigner construction; model size N <= 6 (quick) / 8 (thorough).",
                design_ref="DESIGN.md section 3, C03"),
}


def claimed():
    return set(VH.keys()) | set(SPECIAL.keys())


def info(pid):
    return INFO[pid]


def _c16(tier, seed):
    from . import c16
    return c16.run(tier, seed)


def _c17(tier, seed):
    from . import c17
    return c17.run(tier, seed)


def _c06(tier, seed):
    from . import c06
    return c06.run(tier, seed)


SPECIAL = {"C06": _c06, "C16": _c16, "C17": _c17}


def run(pid, tier, seed):
    if pid in SPECIAL:
        return SPECIAL[pid](tier, seed)
    if pid in VH:
        s = VH[pid]
        return engine.run_vh_check(pid, tier, seed, s["drivers"], s["rule"], s["floor"][tier], TRUST, extra=s.get("extra"))
    print("HARNESS-FAILURE: no check registered for %s" % pid)
    return 2
