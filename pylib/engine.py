"""Generic check engine: run drivers, aggregate monitors' verdicts, known-findings matching, evidence, replay files."""
import fnmatch, hashlib, json, os, re, subprocess, sys, time

from . import build, runner

VERIF = build.VERIF
# VERIF_OUT_ROOT redirects evidence, replay files and scratch output (used by the seeded-break runner so that runs against a
# scratch worktree neither touch the committed evidence of the unchanged tree nor collide with each other)
OUT_ROOT = os.environ.get("VERIF_OUT_ROOT") or VERIF
EVIDENCE_DIR = os.path.join(OUT_ROOT, "evidence")
REPLAY_DIR = os.path.join(OUT_ROOT, "replays")
KNOWN_PATH = os.path.join(VERIF, "known_findings.json")


def seed_from_env():
    try:
        return int(os.environ.get("VERIF_SEED", "1"))
    except ValueError:
        return 1


def load_known():
    if not os.path.exists(KNOWN_PATH):
        return []
    return json.load(open(KNOWN_PATH)).get("findings", [])


class Outcome:
    """Collects everything a check observed."""

    def __init__(self, pid, tier, seed):
        self.pid, self.tier, self.seed = pid, tier, seed
        self.t0 = time.time()
        self.cases = 0
        self.skipped = 0
        self.n_checks = 0
        self.canon_nontrivial = set()
        self.samples = []
        self.counters = {}
        self.ratios = {}
        self.violations = {}      # key -> dict(first witness)
        self.vcount = {}          # key -> count
        self.inconclusive = []    # strings
        self.infra = []           # strings (harness failure)
        self.extra = {}           # additional coverage keys
        self.feature_hist = {}

    def add_case(self, case, driver, flavour):
        self.cases += 1
        if case.get("skipped"):
            self.skipped += 1
        self.n_checks += case.get("n_checks", 0)
        if case.get("nontrivial"):
            self.canon_nontrivial.add(hashlib.sha1((driver + "|" + flavour_kind(flavour) + "|" + (case.get("canon") or str(case["case"]))).encode()).hexdigest())
        for k, v in case.get("counters", {}).items():
            self.counters[k] = self.counters.get(k, 0) + v
        for k, v in case.get("ratios", {}).items():
            key = driver + ":" + k
            if v > self.ratios.get(key, 0):
                self.ratios[key] = v
        for fk, fv in case.get("features", {}).items():
            if isinstance(fv, (str, bool, int)) and not isinstance(fv, float):
                h = self.feature_hist.setdefault(fk, {})
                if len(h) < 40 or str(fv) in h:
                    h[str(fv)] = h.get(str(fv), 0) + 1
        if len(self.samples) < 3 and case.get("nontrivial"):
            self.samples.append(dict(driver=driver, flavour=flavour, case=case["case"], model=case.get("model"), features=case.get("features"),
                                     n_checks=case.get("n_checks"), max_ratio=case.get("max_ratio")))
        for v in case.get("violations", []):
            self.add_violation(v["key"], dict(driver=driver, flavour=flavour, case=case["case"], monitor=v["monitor"], detail=v["detail"],
                                               model=case.get("model"), features=case.get("features")))

    def add_violation(self, key, witness):
        if key.startswith("HARNESS:"):
            self.infra.append("%s: %s/%s case %s: %s" % (key, witness.get("driver"), witness.get("flavour"), witness.get("case"), str(witness.get("detail"))[:500]))
            return
        self.vcount[key] = self.vcount.get(key, 0) + 1
        if key not in self.violations:
            self.violations[key] = witness


def flavour_kind(fl):
    return "cplx" if fl.endswith("cplx") else "real"


SIGNAMES = {-6: "SIGABRT", -11: "SIGSEGV", -8: "SIGFPE", -7: "SIGBUS", -4: "SIGILL", -9: "SIGKILL", 134: "SIGABRT", 139: "SIGSEGV", 136: "SIGFPE"}


def strip_frame(fr):
    fr = re.sub(r"\(.*$", "", fr.strip())
    fr = re.sub(r"<.*>", "<>", fr)
    return fr


def crash_site_from_stderr(tail):
    m = re.search(r"VERIF-EIGEN-ASSERT (\S+?):(\d+) (.*)", tail)
    if m:
        return "eigen-assert:" + os.path.basename(m.group(1))
    m = re.search(r"what\(\):\s*(.*)", tail)
    if m:
        return "uncaught:" + m.group(1).strip()[:80]
    return None


def gdb_site(vh, driver, seed, tier, case, env, extra_args=None):
    """Re-run one case under gdb and return the innermost library frame of the fatal signal."""
    cmd = ["gdb", "-q", "-batch", "-ex", "run", "-ex", "bt 40", "--args", vh, driver, "--seed", str(seed), "--tier", tier, "--only", str(case),
           "--out", "/dev/null"] + (extra_args or [])
    try:
        p = subprocess.run(cmd, stdout=subprocess.PIPE, stderr=subprocess.STDOUT, env=env, timeout=600)
    except subprocess.TimeoutExpired:
        return None, ""
    txt = p.stdout.decode(errors="replace")
    site = None
    for line in txt.splitlines():
        m = re.match(r"#\d+\s+(?:0x[0-9a-f]+ in )?((?:Pomerol|pMPI)::[^\s(]+)", line)
        if m:
            site = strip_frame(m.group(1))
            break
    return site, txt[-5000:]


def record_incidents(out, merged, driver, vh_by_flavour, seed, tier, extra_args=None, env_extra=None, key_driver=None, extra_witness=None):
    kd = key_driver or driver
    for fl, res in merged.items():
        for inc in res.incidents:
            kind = inc["kind"]
            if kind == "slow":
                out.inconclusive.append("%s/%s case %s exceeded the watchdog once, re-run completed" % (driver, fl, inc["case"]))
                out.counters["slow_runs"] = out.counters.get("slow_runs", 0) + 1
            elif kind in ("infra", "exit"):
                site = crash_site_from_stderr(inc.get("stderr", "") or "")
                out.infra.append("%s/%s process failed outside a case rc=%s %s: %s" % (driver, fl, inc["rc"], site or "", (inc.get("stderr") or "")[-800:]))
            elif kind == "hang":
                key = "%s:hang:%s" % (out.pid, kd)
                out.add_violation(key, dict(driver=driver, flavour=fl, case=inc["case"], monitor="watchdog", detail="case did not finish within the watchdog twice; stderr tail: " + (inc.get("stderr") or "")[-1500:]))
            elif kind == "crash":
                sig = SIGNAMES.get(inc["rc"], "rc%s" % inc["rc"])
                site = crash_site_from_stderr(inc.get("stderr", "") or "")
                bt = ""
                if site is None and not fl.startswith("A-") and not fl.startswith("T-"):
                    env = runner.base_env(env_extra)
                    site, bt = gdb_site(vh_by_flavour[fl], driver, seed, tier, inc["case"], env, extra_args)
                if site is None:
                    site = sanitizer_site(inc.get("stderr", "") or "") or "unknown"
                key = "%s:crash:%s:%s:%s" % (out.pid, kd, sig, site)
                out.add_violation(key, dict(driver=driver, flavour=fl, case=inc["case"], monitor="crash", **(extra_witness or {}),
                                             detail="process died with %s in %s; stderr tail:\n%s\n%s" % (sig, site, (inc.get("stderr") or "")[-2500:], bt[-2500:])))


def sanitizer_site(txt):
    # innermost Pomerol/pMPI frame of the first report in txt
    for line in txt.splitlines():
        m = re.match(r"\s*#\d+ 0x[0-9a-f]+ in ((?:Pomerol|pMPI)::[^\s(]+)", line)
        if m:
            return strip_frame(m.group(1))
    return None


def match_known(pid, key, known):
    for e in known:
        if e.get("property") != pid:
            continue
        if e.get("status") != "known":
            continue
        pat = e.get("key", "")
        if key == pat or fnmatch.fnmatchcase(key, pat):
            return e
    return None


def finish(out, level="exploration", rule="", min_nontrivial=2, assumptions=None, technique_note=None):
    """Write evidence, replay files; print verdict lines; return exit code."""
    known = load_known()
    os.makedirs(EVIDENCE_DIR, exist_ok=True)
    unknown, known_hit = [], {}
    for key, wit in sorted(out.violations.items()):
        e = match_known(out.pid, key, known)
        if e is not None:
            known_hit.setdefault(e["key"], (e, []))[1].append(key)
        else:
            unknown.append(key)
    replay_paths = {}
    for key in unknown:
        wit = out.violations[key]
        d = os.path.join(REPLAY_DIR, out.pid)
        os.makedirs(d, exist_ok=True)
        path = os.path.join(d, hashlib.sha1(key.encode()).hexdigest()[:12] + ".json")
        rep = dict(property=out.pid, key=key, seed=out.seed, tier=out.tier, count=out.vcount.get(key, 1))
        rep.update(wit)
        json.dump(rep, open(path, "w"), indent=1, default=str)
        replay_paths[key] = path
    distinct = len(out.canon_nontrivial)
    inconclusive = list(out.inconclusive)
    if distinct < min_nontrivial:
        inconclusive.append("only %d distinct non-trivial cases observed (floor %d)" % (distinct, min_nontrivial))
    cov = dict(evaluations=out.cases, distinct_nontrivial=distinct, rule=rule, samples=out.samples or [dict(note="no non-trivial sample recorded")],
               monitor_checks=out.n_checks, monitor_counts={k: v for k, v in sorted(out.counters.items())},
               max_ratio_per_monitor={k: v for k, v in sorted(out.ratios.items())},
               feature_histogram=out.feature_hist, skipped_cases=out.skipped,
               violation_keys={k: out.vcount[k] for k in sorted(out.vcount)},
               known_findings_observed=sorted(known_hit.keys()), inconclusive=inconclusive, harness_failures=out.infra[:10])
    cov.update(out.extra)
    ev = dict(property_id=out.pid, tier=out.tier, seed=out.seed, level=level, coverage=cov,
              assumptions=assumptions or [], wall_s=round(time.time() - out.t0, 2), violations=len(unknown))
    json.dump(ev, open(os.path.join(EVIDENCE_DIR, out.pid + ".json"), "w"), indent=1, default=str)
    # the latest evidence of each tier is kept as well (evidence/<tier>/<id>.json), so that a quick run does not erase what the thorough run covered
    os.makedirs(os.path.join(EVIDENCE_DIR, out.tier), exist_ok=True)
    json.dump(ev, open(os.path.join(EVIDENCE_DIR, out.tier, out.pid + ".json"), "w"), indent=1, default=str)
    for pat, (e, keys) in sorted(known_hit.items()):
        print("KNOWN-FINDING: property=%s %s [key %s, %d observation(s)]" % (out.pid, e.get("what", ""), pat, sum(out.vcount.get(k, 1) for k in keys)))
    print("%s %s seed=%d: %d cases, %d distinct non-trivial, %d monitor evaluations, %.0fs" % (out.pid, out.tier, out.seed, out.cases, distinct, out.n_checks, time.time() - out.t0))
    worst = sorted(out.ratios.items(), key=lambda kv: -kv[1])[:4]
    if worst:
        print("  largest |lib-ref|/tol: " + ", ".join("%s=%.3g" % kv for kv in worst))
    if unknown:
        for key in unknown:
            w = out.violations[key]
            print("  violated: %s (x%d) first witness: %s/%s case %s: %s" % (key, out.vcount.get(key, 1), w.get("driver"), w.get("flavour"), w.get("case"), str(w.get("detail"))[:600]))
            print("VIOLATION property=%s replay=%s" % (out.pid, replay_paths[key]))
        return 1
    if out.infra:
        for s in out.infra[:5]:
            print("HARNESS-FAILURE: " + s[:1500])
        return 2
    if inconclusive:
        for s in inconclusive:
            print("INCONCLUSIVE: " + s)
        # a single slow run is recorded but does not void the verdict; too little coverage does
        if distinct < min_nontrivial:
            return 2
    return 0


LIFECYCLE_NOTE = ("; object life cycle: on every fifth case of every driver the common pipeline constructs all workflow objects (IndexClassification ... FieldOperatorContainer) "
                  "before the lattice has a site and runs prepare/compute afterwards (feature declare_first); drivers repeat prepare/compute calls and drive copies of "
                  "constructed/prepared/computed objects where the class is copyable")


def run_vh_check(pid, tier, seed, drivers, rule, min_nontrivial, assumptions, per_case_timeout=30.0, extra=None):
    rule = rule + LIFECYCLE_NOTE
    """drivers: list of dict(driver=..., flavours=[...], limit=None)."""
    out = Outcome(pid, tier, seed)
    flavours = sorted({f for d in drivers for f in d["flavours"]})
    try:
        vhs = build.build_many(flavours)
    except Exception as e:
        print("HARNESS-FAILURE: build failed:\n" + str(e)[-6000:])
        out.infra.append("build failed")
        finish(out, rule=rule, min_nontrivial=min_nontrivial, assumptions=assumptions)
        return 2
    wdir = runner.work_dir(pid + "-" + tier)
    for d in drivers:
        vb = {f: vhs[f] for f in d["flavours"]}
        merged = runner.run_driver(vb, d["driver"], seed, tier, wdir, per_case_timeout=d.get("timeout", per_case_timeout), limit=d.get("limit"))
        for fl, res in merged.items():
            for case in res.cases:
                out.add_case(case, d["driver"], fl)
        record_incidents(out, merged, d["driver"], vb, seed, tier)
    if extra:
        out.extra.update(extra)
    return finish(out, rule=rule, min_nontrivial=min_nontrivial, assumptions=assumptions)
