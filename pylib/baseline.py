"""bin/verif baseline-off: build /repo WITHOUT the hook guard (pinned RelWithDebInfo configuration, tests on) and run the
repository's own ctest suite; the result must match /root/.vp/BASELINE.json (20 stable tests)."""
import json, os, re, subprocess, sys
from . import build, runner


def run():
    try:
        bdir = build.build_library("baseline")
    except Exception as e:
        print("baseline build failed:\n" + str(e)[-6000:])
        return 2
    env = runner.base_env()
    p = subprocess.run(["ctest", "--test-dir", bdir, "-j8", "--timeout", "900"], stdout=subprocess.PIPE, stderr=subprocess.STDOUT, env=env)
    txt = p.stdout.decode(errors="replace")
    passed = set(re.findall(r"Test\s+#\d+:\s+(\S+)\s+\.+\s+Passed", txt))
    failed = set(re.findall(r"Test\s+#\d+:\s+(\S+)\s+\.+\*+(?:Failed|Timeout|Exception)", txt)) | set(re.findall(r"\d+ - (\S+) \((?:Failed|Timeout|SEGFAULT|Child aborted|Exception)", txt))
    want = set()
    try:
        want = {t.split("::")[0] for t in json.load(open("/root/.vp/BASELINE.json"))["stable_pass"]}
    except Exception:
        pass
    missing = sorted(want - passed)
    print(txt[-1500:])
    print("baseline-off: %d passed, %d failed; stable baseline tests not passing: %s" % (len(passed), len(failed), missing))
    return 0 if not missing and not failed else 1
