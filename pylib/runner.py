"""Run harness drivers in parallel worker processes, with crash attribution and watchdogs; aggregate results."""
import json, os, shutil, signal, subprocess, sys, time, hashlib, threading
from concurrent.futures import ThreadPoolExecutor

from . import build

VERIF = build.VERIF
NCPU = int(os.environ.get("VERIF_JOBS", "16"))

MPI_ENV = {"OMPI_ALLOW_RUN_AS_ROOT": "1", "OMPI_ALLOW_RUN_AS_ROOT_CONFIRM": "1",
           "OMPI_MCA_rmaps_base_oversubscribe": "1", "OMPI_MCA_btl_vader_single_copy_mechanism": "none",
           "OMPI_MCA_mpi_yield_when_idle": "1"}


def work_dir(tag):
    d = os.path.join(os.environ.get("VERIF_OUT_ROOT") or VERIF, "_work", tag)
    if os.path.isdir(d):
        shutil.rmtree(d, ignore_errors=True)
    os.makedirs(d, exist_ok=True)
    return d


def base_env(extra=None):
    env = dict(os.environ)
    env.update(MPI_ENV)
    env.setdefault("OMP_NUM_THREADS", "1")
    # a harness process started without mpiexec is an MPI singleton; by default Open MPI forks a helper daemon for it, which now and then
    # fails to start on a busy machine ("Unable to start a daemon on the local node") - nothing in the workloads needs that daemon
    env.setdefault("OMPI_MCA_ess_singleton_isolated", "1")
    if extra:
        env.update(extra)
    return env


def parse_out(path):
    """Return (cases, open_case, ended). cases = list of dicts; open_case = k of a BEGIN without CASE (or None)."""
    cases, open_case, ended = [], None, False
    if not os.path.exists(path):
        return cases, open_case, ended
    with open(path, "r", errors="replace") as f:
        for line in f:
            if line.startswith("BEGIN "):
                try:
                    open_case = int(line.split()[1])
                except Exception:
                    pass
            elif line.startswith("CASE "):
                try:
                    cases.append(json.loads(line[5:]))
                    open_case = None
                except Exception:
                    pass
            elif line.startswith("END"):
                ended = True
    return cases, open_case, ended


class ChunkResult:
    def __init__(self):
        self.cases = []
        self.incidents = []   # dicts: kind(crash|hang|slow), case, rc, stderr_tail, flavour
        self.wall = 0.0


def run_chunk(vh, driver, seed, tier, lo, hi, wdir, tag, env, per_case_timeout, flavour, extra_args=None, stride=1):
    """Run cases [lo,hi) in one process; on crash resume after the crashing case; on watchdog expiry re-run once."""
    res = ChunkResult()
    t0 = time.time()
    cur = lo
    attempt = 0
    startup_failures = 0
    while cur < hi:
        out = os.path.join(wdir, "%s.%d.%d.out" % (tag, cur, attempt))
        err = os.path.join(wdir, "%s.%d.%d.err" % (tag, cur, attempt))
        attempt += 1
        cmd = [vh, driver, "--seed", str(seed), "--tier", tier, "--from", str(cur), "--to", str(hi), "--stride", str(stride), "--out", out] + (extra_args or [])
        timeout = max(120.0, per_case_timeout * ((hi - cur) // stride + 1))
        with open(err, "wb") as ef:
            p = subprocess.Popen(cmd, stdout=subprocess.DEVNULL, stderr=ef, env=env, cwd=wdir, start_new_session=True)
            try:
                rc = p.wait(timeout=timeout)
                timed_out = False
            except subprocess.TimeoutExpired:
                timed_out = True
                try:
                    os.killpg(p.pid, signal.SIGKILL)
                except Exception:
                    pass
                rc = p.wait()
        cases, open_case, ended = parse_out(out)
        res.cases.extend(cases)
        tail = ""
        try:
            with open(err, "r", errors="replace") as f:
                tail = f.read()[-6000:]
        except Exception:
            pass
        if ended and rc == 0:
            break
        if open_case is None and not cases and not timed_out and startup_failures < 3:
            # died before the first case began (MPI start-up failure on a loaded machine, fork failure...): try again a few times
            startup_failures += 1
            time.sleep(2.0 * startup_failures)
            continue
        if open_case is None:
            # died outside a case (start-up / shutdown): harness failure, do not loop forever
            if cases and cases[-1]["case"] + stride >= hi and not timed_out:
                res.incidents.append(dict(kind="exit", case=None, rc=rc, stderr=tail, flavour=flavour))
                break
            res.incidents.append(dict(kind="infra", case=None, rc=rc, stderr=tail, flavour=flavour))
            break
        if timed_out:
            # re-run the suspected case alone once, with the same per-process watchdog
            single_out = os.path.join(wdir, "%s.%d.retry.out" % (tag, open_case))
            cmd1 = [vh, driver, "--seed", str(seed), "--tier", tier, "--only", str(open_case), "--out", single_out] + (extra_args or [])
            try:
                p1 = subprocess.run(cmd1, stdout=subprocess.DEVNULL, stderr=subprocess.DEVNULL, env=env, cwd=wdir, timeout=max(120.0, per_case_timeout * 20))
                c1, oc1, e1 = parse_out(single_out)
                if e1 and c1:
                    res.cases.extend(c1)
                    res.incidents.append(dict(kind="slow", case=open_case, rc=None, stderr="", flavour=flavour))
                else:
                    res.incidents.append(dict(kind="crash", case=open_case, rc=p1.returncode, stderr=tail, flavour=flavour))
            except subprocess.TimeoutExpired:
                res.incidents.append(dict(kind="hang", case=open_case, rc=None, stderr=tail, flavour=flavour))
        else:
            res.incidents.append(dict(kind="crash", case=open_case, rc=rc, stderr=tail, flavour=flavour))
        cur = open_case + stride
    res.wall = time.time() - t0
    return res


def ncases(vh, driver, tier, env):
    for attempt in range(4):
        p = subprocess.run([vh, driver, "--tier", tier, "--ncases"], stdout=subprocess.PIPE, stderr=subprocess.PIPE, env=env)
        if p.returncode == 0:
            break
        time.sleep(1.0 + attempt)
    if p.returncode != 0:
        raise RuntimeError("vh --ncases failed: %s" % p.stderr.decode(errors="replace")[-2000:])
    return int(p.stdout.decode().strip().splitlines()[-1])


def run_driver(vh_by_flavour, driver, seed, tier, wdir, per_case_timeout=30.0, env_extra=None, workers=NCPU,
               limit=None, extra_args=None, env_by_flavour=None, sample=None, keep_stderr=False):
    """sample=N: run about N cases spread evenly over the driver's case range (stride), instead of all of them."""
    """Run `driver` for every flavour in vh_by_flavour; returns {flavour: ChunkResult-like merged}."""
    tasks = []
    for fl, vh in vh_by_flavour.items():
        env = base_env(env_extra)
        if env_by_flavour and fl in env_by_flavour:
            env.update(env_by_flavour[fl])
        n = ncases(vh, driver, tier, env)
        if limit is not None:
            n = min(n, limit)
        stride = 1
        if sample is not None and n > sample:
            stride = max(1, n // sample)
        w = max(1, workers // max(1, len(vh_by_flavour)))
        nsel = (n + stride - 1) // stride
        nchunks = min(nsel, w * 3) if nsel > 0 else 0
        bounds = [((i * nsel) // nchunks) * stride for i in range(nchunks)] + [n] if nchunks else []
        for i in range(nchunks):
            if bounds[i] < bounds[i + 1]:
                tasks.append((fl, vh, bounds[i], bounds[i + 1], env, stride))
    merged = {fl: ChunkResult() for fl in vh_by_flavour}

    def go(t):
        fl, vh, lo, hi, env, stride = t
        return fl, run_chunk(vh, driver, seed, tier, lo, hi, wdir, "%s.%s" % (driver, fl), env, per_case_timeout, fl, extra_args, stride)

    with ThreadPoolExecutor(max_workers=workers) as ex:
        for fl, r in ex.map(go, tasks):
            merged[fl].cases.extend(r.cases)
            merged[fl].incidents.extend(r.incidents)
            merged[fl].wall += r.wall
    for fl in merged:
        merged[fl].cases.sort(key=lambda c: c["case"])
    return merged
