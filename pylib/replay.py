"""bin/verif replay <path>: re-run exactly the case recorded in a replay file and print the monitor's witness."""
import json, os, subprocess, sys, tempfile
from . import build, runner, engine


def run(path):
    rep = json.load(open(path))
    special = rep.get("replay_special")
    rep["_path"] = path
    if special:
        from . import special_replay
        return special_replay.run(rep)
    fl, driver = rep["flavour"], rep["driver"]
    vh = build.build_harness(fl)
    wdir = runner.work_dir("replay")
    out = os.path.join(wdir, "replay.out")
    env = runner.base_env(rep.get("env"))
    cmd = [vh, driver, "--seed", str(rep["seed"]), "--tier", rep["tier"], "--only", str(rep["case"]), "--out", out]
    p = subprocess.run(cmd, stdout=subprocess.DEVNULL, stderr=subprocess.PIPE, env=env, cwd=wdir)
    cases, open_case, ended = runner.parse_out(out)
    print("replay of %s: driver=%s flavour=%s seed=%s tier=%s case=%s" % (rep["key"], driver, fl, rep["seed"], rep["tier"], rep["case"]))
    if not cases:
        print("process ended without completing the case (rc=%s); stderr tail:\n%s" % (p.returncode, p.stderr.decode(errors="replace")[-4000:]))
        print("VIOLATION property=%s replay=%s" % (rep["property"], path))
        return 1
    c = cases[0]
    print("model: " + json.dumps(c.get("model"))[:4000])
    print("features: " + json.dumps(c.get("features"))[:2000])
    hit = [v for v in c.get("violations", []) if v["key"] == rep["key"]]
    for v in c.get("violations", []):
        print("violation %s [%s]: %s" % (v["key"], v["monitor"], v["detail"]))
    if hit:
        print("VIOLATION property=%s replay=%s" % (rep["property"], path))
        return 1
    print("not reproduced: the recorded key did not fire on this tree")
    return 0
