"""Build flavours of the pomerol library and of the verification harness.

Everything is rebuilt from the *content* of $VERIF_REPO (default /repo): per-file hashes of
src/, include/, cmake/, CMakeLists.txt are compared with the manifest stored next to each
build directory.  A changed .cpp removes its object file, a changed header / cmake file
removes all object files, then ninja is run; so an edit that preserved mtimes is still
picked up.  Nothing under /tmp is needed.
"""
import hashlib, json, os, shutil, subprocess, sys, threading, time
from concurrent.futures import ThreadPoolExecutor

VERIF = os.path.dirname(os.path.dirname(os.path.abspath(__file__)))
HARNESS = os.path.join(VERIF, "harness")
GUARD = "POMEROL_VERIF"


def repo_dir():
    return os.path.abspath(os.environ.get("VERIF_REPO", "/repo"))


def build_root():
    # separate build trees per repository path, so that a scratch mutant never pollutes /repo's build
    r = repo_dir()
    if r == "/repo":
        return os.path.join(VERIF, "_build")
    tag = hashlib.sha1(r.encode()).hexdigest()[:10]
    return os.path.join(VERIF, "_build", "alt-" + tag)


MPI_INC = ["-I/usr/lib/x86_64-linux-gnu/openmpi/include", "-I/usr/lib/x86_64-linux-gnu/openmpi/include/openmpi"]
MPI_LINK = ["-L/usr/lib/x86_64-linux-gnu/openmpi/lib", "-lmpi_cxx", "-lmpi"]
EIGEN_INC = ["-I/usr/include/eigen3"]

FLAVOURS = {
    # name: (compiler, flags, complex?, guard on?)
    "P-real": dict(cxx="g++", flags="-O2 -g1 -DNDEBUG -fopenmp", cplx=False, hooks=True),
    "P-cplx": dict(cxx="g++", flags="-O2 -g1 -DNDEBUG -fopenmp", cplx=True, hooks=True),
    "A-real": dict(cxx="g++", flags="-O1 -g -fno-omit-frame-pointer -fsanitize=address,undefined "
                                    "-fsanitize-recover=address,undefined -DNDEBUG -fopenmp "
                                    "-include %s/verif_eigen_assert.h" % HARNESS, cplx=False, hooks=True),
    "A-cplx": dict(cxx="g++", flags="-O1 -g -fno-omit-frame-pointer -fsanitize=address,undefined "
                                    "-fsanitize-recover=address,undefined -DNDEBUG -fopenmp "
                                    "-include %s/verif_eigen_assert.h" % HARNESS, cplx=True, hooks=True),
    "T-real": dict(cxx="clang++-14", flags="-O1 -g -fsanitize=thread -fopenmp=libomp -DNDEBUG", cplx=False, hooks=True),
    # the pinned configuration, guard OFF: used by baseline-off only
    "baseline": dict(cxx="g++", flags="-Wno-error", cplx=False, hooks=False, build_type="RelWithDebInfo", tests=True),
}


def _sha(path):
    h = hashlib.sha1()
    with open(path, "rb") as f:
        h.update(f.read())
    return h.hexdigest()


def tree_hashes(root, subdirs, files=()):
    out = {}
    for sd in subdirs:
        base = os.path.join(root, sd)
        for dp, dn, fn in os.walk(base):
            dn.sort()
            for f in sorted(fn):
                p = os.path.join(dp, f)
                out[os.path.relpath(p, root)] = _sha(p)
    for f in files:
        p = os.path.join(root, f)
        if os.path.exists(p):
            out[f] = _sha(p)
    return out


def repo_hashes(with_tests=False):
    sub = ["src", "include", "cmake"] + (["test"] if with_tests else [])
    return tree_hashes(repo_dir(), sub, ["CMakeLists.txt"])


def log(msg):
    sys.stderr.write("[verif-build] %s\n" % msg)
    sys.stderr.flush()


def run(cmd, cwd=None, logfile=None, env=None):
    t0 = time.time()
    p = subprocess.run(cmd, cwd=cwd, stdout=subprocess.PIPE, stderr=subprocess.STDOUT, env=env)
    if logfile:
        with open(logfile, "ab") as f:
            f.write(("\n$ %s\n" % " ".join(cmd)).encode())
            f.write(p.stdout)
    return p.returncode, p.stdout.decode(errors="replace"), time.time() - t0


def build_library(flavour):
    """Build libpomerol for a flavour; returns build dir. Raises RuntimeError on failure."""
    spec = FLAVOURS[flavour]
    bdir = os.path.join(build_root(), flavour)
    os.makedirs(bdir, exist_ok=True)
    manifest_path = os.path.join(bdir, ".verif_srchash.json")
    want = dict(files=repo_hashes(with_tests=spec.get("tests", False)), spec=spec, repo=repo_dir(),
                eigen_assert=_sha(os.path.join(HARNESS, "verif_eigen_assert.h")))
    have = None
    if os.path.exists(manifest_path):
        try:
            have = json.load(open(manifest_path))
        except Exception:
            have = None
    libpath = os.path.join(bdir, "libpomerol.so")
    if have == want and os.path.exists(libpath):
        return bdir
    logfile = os.path.join(bdir, "build.log")
    flags = spec["flags"] + (" -D%s" % GUARD if spec["hooks"] else "")
    need_configure = (have is None or have.get("spec") != spec or have.get("repo") != want["repo"]
                      or have.get("eigen_assert") != want["eigen_assert"]
                      or not os.path.exists(os.path.join(bdir, "build.ninja")))
    if need_configure:
        for e in os.listdir(bdir):
            p = os.path.join(bdir, e)
            if os.path.isdir(p):
                shutil.rmtree(p)
            else:
                os.remove(p)
        cmd = ["cmake", "-G", "Ninja", "-S", repo_dir(), "-B", bdir,
               "-DCMAKE_CXX_COMPILER=" + spec["cxx"],
               "-DCMAKE_BUILD_TYPE=" + spec.get("build_type", "None"),
               "-DCMAKE_CXX_FLAGS=" + flags,
               "-DTesting=" + ("ON" if spec.get("tests") else "OFF"),
               "-DPOMEROL_COMPLEX_MATRIX_ELEMENTS=" + ("ON" if spec["cplx"] else "OFF"),
               "-DBuildDocumentation=OFF", "-DDocumentation=OFF"]
        rc, out, dt = run(cmd, logfile=logfile)
        if rc != 0:
            raise RuntimeError("cmake configure failed for %s:\n%s" % (flavour, out[-3000:]))
    else:
        # content-based invalidation (mtimes may have been preserved)
        changed = [f for f in set(want["files"]) | set(have["files"])
                   if want["files"].get(f) != have["files"].get(f)]
        wipe_all = any(not f.endswith(".cpp") for f in changed)
        objroot = os.path.join(bdir, "CMakeFiles")
        for dp, dn, fn in os.walk(objroot):
            for f in fn:
                if not f.endswith(".o"):
                    continue
                if wipe_all or any(os.path.basename(c) + ".o" == f for c in changed):
                    os.remove(os.path.join(dp, f))
        if any(f.startswith("cmake") or f == "CMakeLists.txt" or f.endswith(".in") for f in changed):
            run(["cmake", bdir], logfile=logfile)
    rc, out, dt = run(["ninja", "-C", bdir, "-j", str(os.environ.get("VERIF_JOBS", "16"))], logfile=logfile)
    if rc != 0:
        raise RuntimeError("library build failed for %s:\n%s" % (flavour, out[-4000:]))
    log("%s: library built in %.0fs" % (flavour, dt))
    json.dump(want, open(manifest_path, "w"))
    return bdir


def harness_sources():
    src = []
    for sd in ("common", "drivers"):
        d = os.path.join(HARNESS, sd)
        for f in sorted(os.listdir(d)):
            if f.endswith(".cpp"):
                src.append(os.path.join(d, f))
    return src


def harness_headers_hash():
    h = hashlib.sha1()
    for dp, dn, fn in os.walk(HARNESS):
        dn.sort()
        for f in sorted(fn):
            if f.endswith((".hpp", ".h")):
                h.update(f.encode())
                h.update(_sha(os.path.join(dp, f)).encode())
    return h.hexdigest()


# one pool of compiler slots for the whole process (flavours are built concurrently), and no new compiler is started while the machine is
# short of memory: an ASan compile of one of the Eigen-heavy drivers needs 1.5-2.5 GB
_CC_SLOTS = threading.BoundedSemaphore(int(os.environ.get("VERIF_JOBS", "16")))


def _mem_available_gb():
    try:
        for line in open("/proc/meminfo"):
            if line.startswith("MemAvailable:"):
                return int(line.split()[1]) / 1048576.0
    except Exception:
        pass
    return 1e9


def _wait_for_memory(need_gb=4.0, max_wait=900):
    t0 = time.time()
    while _mem_available_gb() < need_gb and time.time() - t0 < max_wait:
        time.sleep(3.0)


class _global_cc_slot(object):
    """One of N machine-wide compiler slots (lock files shared by every verif process on the machine, whichever copy of /verif it runs from):
    several checks building at once (seeded-break runs, a development copy) must not start 60 compilers of 2.4 GB each."""
    N = max(4, min(int(os.environ.get("VERIF_JOBS", "16")), 16))
    DIR = "/dev/shm/verif-ccslots"

    def __enter__(self):
        import fcntl
        os.makedirs(self.DIR, exist_ok=True)
        while True:
            for i in range(self.N):
                f = open(os.path.join(self.DIR, "slot%d" % i), "w")
                try:
                    fcntl.flock(f, fcntl.LOCK_EX | fcntl.LOCK_NB)
                    self.f = f
                    return self
                except OSError:
                    f.close()
            time.sleep(0.5)

    def __exit__(self, *a):
        self.f.close()


def build_harness(flavour):
    """Compile and link the harness binary `vh` against the flavour's library. Returns path to vh."""
    spec = FLAVOURS[flavour]
    bdir = build_library(flavour)
    hdir = os.path.join(bdir, "harness")
    os.makedirs(hdir, exist_ok=True)
    # harness objects depend on the repository's *headers* (and the flavour), not on its .cpp files
    inc = tree_hashes(repo_dir(), ["include"])
    lib_manifest = hashlib.sha1(json.dumps([inc, spec], sort_keys=True).encode()).hexdigest()
    hh = harness_headers_hash()
    flags = spec["flags"].split() + ["-D" + GUARD, "-std=gnu++17", "-Wno-deprecated-declarations",
             "-I" + os.path.join(repo_dir(), "include"), "-I" + os.path.join(repo_dir(), "include", "pomerol"),
             "-I" + os.path.join(bdir, "include"), "-I" + HARNESS] + EIGEN_INC + MPI_INC
    if spec["cplx"]:
        flags.append("-DVH_CPLX=1")
    flags.append("-DVH_FLAVOUR=\"%s\"" % flavour)
    stamp_path = os.path.join(hdir, ".stamps.json")
    stamps = {}
    if os.path.exists(stamp_path):
        try:
            stamps = json.load(open(stamp_path))
        except Exception:
            stamps = {}
    jobs = []
    objs = []
    for s in harness_sources():
        o = os.path.join(hdir, os.path.basename(s)[:-4] + ".o")
        objs.append(o)
        key = "|".join([_sha(s), hh, lib_manifest, " ".join(flags)])
        if stamps.get(o) != key or not os.path.exists(o):
            jobs.append((s, o, key))
    logfile = os.path.join(hdir, "build.log")

    def cc(job):
        s, o, key = job
        with _CC_SLOTS, _global_cc_slot():
            _wait_for_memory()
            rc, out, dt = run([spec["cxx"]] + flags + ["-c", s, "-o", o], logfile=logfile)
        return rc, out, job

    failed = []
    if jobs:
        t0 = time.time()
        with ThreadPoolExecutor(max_workers=int(os.environ.get("VERIF_JOBS", "16"))) as ex:
            for rc, out, job in ex.map(cc, jobs):
                if rc != 0:
                    failed.append((job[0], out))
                else:
                    stamps[job[1]] = job[2]
        if failed:
            # a compiler killed by the OOM killer on a loaded machine is not a verdict: retry the failed objects with little parallelism
            retry = [j for j in jobs if any(j[0] == f for f, _ in failed)]
            failed = []
            with ThreadPoolExecutor(max_workers=2) as ex:
                for rc, out, job in ex.map(cc, retry):
                    if rc != 0:
                        failed.append((job[0], out))
                    else:
                        stamps[job[1]] = job[2]
        json.dump(stamps, open(stamp_path, "w"))
        log("%s: %d harness objects compiled in %.0fs" % (flavour, len(jobs), time.time() - t0))
    if failed:
        raise RuntimeError("harness compile failed (%s):\n%s" % (flavour, "\n".join(f + "\n" + o[-3000:] for f, o in failed)))
    vh = os.path.join(hdir, "vh")
    lib_stamp = _sha(os.path.join(bdir, ".verif_srchash.json"))
    if jobs or not os.path.exists(vh) or stamps.get("__lib__") != lib_stamp:
        link = [spec["cxx"]] + [f for f in spec["flags"].split() if f.startswith(("-fsanitize", "-fopenmp", "-g", "-O"))] + \
               objs + ["-o", vh, "-L" + bdir, "-lpomerol", "-Wl,-rpath," + bdir,
                       "-lboost_mpi", "-lboost_serialization"] + MPI_LINK
        rc, out, dt = run(link, logfile=logfile)
        if rc != 0:
            raise RuntimeError("harness link failed (%s):\n%s" % (flavour, out[-3000:]))
        stamps["__lib__"] = lib_stamp
        json.dump(stamps, open(stamp_path, "w"))
    return vh


def build_many(flavours):
    """Build several flavours concurrently; returns {flavour: vh path}."""
    out = {}
    errs = []
    with ThreadPoolExecutor(max_workers=len(flavours)) as ex:
        futs = {f: ex.submit(build_harness, f) for f in flavours}
        for f, fu in futs.items():
            try:
                out[f] = fu.result()
            except Exception as e:
                errs.append(str(e))
    if errs:
        raise RuntimeError("\n".join(errs))
    return out
