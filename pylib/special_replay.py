"""Replay of violations that are not a plain (driver, case) monitor verdict: sanitizer reports, memcheck reports, MPI launches."""
import json, os, subprocess, sys
from . import build, runner

sys.path.insert(0, os.path.join(build.VERIF, "monitors"))


def run(rep):
    kind = rep["replay_special"]
    if kind in ("sanitizer", "memcheck"):
        import sanitizer_logs
        fl, driver = rep["flavour"], rep["driver"]
        vh = build.build_harness(fl)
        wdir = runner.work_dir("replay")
        env = runner.base_env(rep.get("env"))
        env["VH_STDERR_MARKERS"] = "1"
        cmd = [vh, driver, "--seed", str(rep["seed"]), "--tier", rep["tier"], "--only", str(rep["case"]), "--out", os.path.join(wdir, "replay.out")]
        if kind == "memcheck":
            cmd = ["valgrind", "--tool=memcheck", "-q", "--num-callers=30", "--leak-check=no"] + cmd
        p = subprocess.run(cmd, stdout=subprocess.DEVNULL, stderr=subprocess.PIPE, env=env, cwd=wdir)
        txt = p.stderr.decode(errors="replace")
        hit = False
        for r in sanitizer_logs.parse_text(txt):
            key = "C17:%s:%s:%s" % (r["tool"], r["kind"], r["site"])
            print("report %s (case %s)\n%s\n" % (key, r["case"], r["text"][:3000]))
            if key == rep["key"]:
                hit = True
        if p.returncode < 0:
            print("process died with signal %d" % -p.returncode)
            if ":crash:" in rep["key"]:
                hit = True
        if hit:
            print("VIOLATION property=%s replay=%s" % (rep["property"], rep.get("_path", "?")))
            return 1
        print("not reproduced: no report with key %s" % rep["key"])
        return 0
    if kind == "mpi-sanitizer":
        import glob, sanitizer_logs
        from . import mpirun
        tool = rep.get("tool", "asan")
        vh = build.build_harness("A-real" if tool == "asan" else "P-real")
        supp = "/usr/share/openmpi/openmpi-valgrind.supp"
        cmdp = vh if tool == "asan" else ["valgrind", "--tool=memcheck", "-q", "--num-callers=30", "--leak-check=no"] + (["--suppressions=" + supp] if os.path.exists(supp) else []) + [vh]
        wdir = runner.work_dir("replay")
        case = rep.get("case") or 0
        odir = os.path.join(wdir, "stderr")
        res = mpirun.launch(cmdp, rep["driver"], rep["np"], rep["seed"], "quick", case, case + 1, wdir, "replay", rep.get("env") or {}, 1500, mpiexec_args=["--output-filename", odir] + (["--mca", "btl", "tcp,self", "--mca", "btl_tcp_if_include", "lo"] if tool != "asan" else []))
        hit = False
        for path in sorted(glob.glob(os.path.join(odir, "*", "rank.*", "stderr"))):
            for r in sanitizer_logs.parse_text(open(path, "r", errors="replace").read()):
                key = "C17:%s:%s:%s" % (r["tool"], r["kind"], r["site"])
                print("report %s (%s)\n%s\n" % (key, path, r["text"][:3000]))
                hit = hit or key == rep["key"]
        if hit:
            print("VIOLATION property=%s replay=%s" % (rep["property"], rep.get("_path", "?")))
            return 1
        print("not reproduced: no report with key %s" % rep["key"])
        return 0
    if kind == "mpi":
        from . import mpirun
        vh = build.build_harness(rep.get("flavour", "P-real"))
        wdir = runner.work_dir("replay")
        case = rep.get("case")
        lo, hi = (case, case + 1) if case is not None else (0, 10 ** 6)
        res = mpirun.launch(vh, rep["driver"], rep["np"], rep["seed"], rep["tier"], lo, hi, wdir, "replay", rep.get("env") or {}, 60)
        print("mpiexec -np %d %s case %s: rc=%s timed_out=%s" % (rep["np"], rep["driver"], case, res["rc"], res["timed_out"]))
        bad = res["timed_out"] or res["rc"] != 0
        for c in res["ranks"][0][0]:
            for v in c.get("violations", []):
                print("violation %s: %s" % (v["key"], v["detail"][:1500]))
                if v["key"] == rep["key"]:
                    bad = True
        if res["timed_out"]:
            print(json.dumps(res["evidence"], indent=1, default=str)[:6000])
        if rep["driver"] == "disp":
            sys.path.insert(0, os.path.join(build.VERIF, "monitors"))
            import dispatch_log
            v, s = dispatch_log.check_logs(res["logdir"])
            for k, d in v:
                print("log violation %s: %s" % (k, d[:800]))
                if k == rep["key"]:
                    bad = True
        if bad:
            print("VIOLATION property=%s replay=%s" % (rep["property"], rep.get("_path", "?")))
            return 1
        print("not reproduced")
        return 0
    print("unknown replay kind " + kind)
    return 2
