"""C16: the job dispatcher runs every job exactly once and always terminates (MPI launches + offline log checker)."""
import os, sys, time
from . import build, engine, mpirun, runner

sys.path.insert(0, os.path.join(build.VERIF, "monitors"))
import dispatch_log  # noqa: E402

RULE = ("launches = mpiexec -np P vh disp for P in the tier's rank list x delay-hook settings (seed, max delay); each launch runs the deterministic case list: communicator kind "
        "(world, duplicate, split with equal / unequal numbers of rounds per colour, subset of ranks, raw MPIMaster/MPIWorker loop with working or idle boss) x rounds {1,2,3,5/10} x jobs per round "
        "{0,1,P-1,P,P+1,3P+1,45,random} x random complexities (ties) x seeded job durations; monitors at the harness boundary (jobs executed per rank, maps returned on every rank, gathered on rank 0) "
        "and offline over the hook event logs (message conservation, one Finish per worker, every rank leaves); non-trivial = case dispatched >=1 job; distinct = (P, delay setting, case)")


def hang_violation(out, driver, inc, pid):
    ev = inc["evidence"]
    last, mpifn, lib = mpirun.blocking_site(ev)
    # the communicator kind of the case is in the h_case marker; the blocking step is the last *_enter event some rank logged
    kind = "?"
    enters = set()
    for r in ev["ranks"].values():
        if r["last_kind"] and r["last_kind"].endswith("_enter"):
            enters.add(r["last_kind"])
    logdir = inc.get("logdir")
    if logdir:
        for r in sorted(ev["ranks"]):
            try:
                for line in open(os.path.join(logdir, "rank%d.log" % r), errors="replace"):
                    e = mpirun.parse_event(line)
                    if e and e["kind"] == "h_case" and e["a"] == inc["case"]:
                        kind = mpirun.KIND_NAMES[e["b"]] if 0 <= e["b"] < len(mpirun.KIND_NAMES) else str(e["b"])
            except Exception:
                pass
    site = "+".join(sorted(enters)) if enters else ("mpi=" + mpifn)
    key = "%s:hang:%s:%s:%s" % (pid, driver, kind, site)
    detail = ("mpiexec -np %d did not finish case %s within the watchdog twice and no rank logged an event in the second half of either window; last events per rank: %s; "
              "innermost MPI calls: %s; library frames: %s; backtraces: %s" % (
                  inc["np"], inc["case"], {r: (v["last_kind"], None if v["last_age_s"] is None else round(v["last_age_s"], 1)) for r, v in ev["ranks"].items()},
                  mpifn, lib, {p: fr[:8] for p, fr in list(ev.get("backtraces", {}).items())[:4]}))
    out.add_violation(key, dict(driver=driver, flavour="P-real", case=inc["case"], monitor="watchdog+event-log", detail=detail, np=inc["np"],
                                replay_special="mpi", env=inc.get("env")))


def run(tier, seed, pid="C16", driver="disp"):
    out = engine.Outcome(pid, tier, seed)
    try:
        vh = build.build_harness("P-real")
    except Exception as e:
        print("HARNESS-FAILURE: build failed:\n" + str(e)[-6000:])
        out.infra.append("build failed")
        engine.finish(out, rule=RULE, min_nontrivial=2)
        return 2
    wdir = runner.work_dir(pid + "-" + tier)
    if tier == "quick":
        plist = [1, 2, 3, 4]
        delays = [(0, 0), (seed * 7 + 1, 300)]
        timeout = 25
    else:
        plist = [1, 2, 3, 4, 5, 6, 7, 8, 12, 16]
        delays = [(0, 0), (seed * 7 + 1, 50), (seed * 7 + 2, 2000), (seed * 7 + 3, 300), (seed * 7 + 4, 2000)]
        timeout = 90
    n = runner.ncases(vh, driver, tier, runner.base_env())
    stats = dict(launches=0, events=0, rounds=0, jobs=0, work_msgs=0, finish_msgs=0, distinct_maps_in_logs=0, seq_gaps=0, configurations=[])
    import concurrent.futures as cf
    jobs = []
    for P in plist:
        for (dseed, dus) in delays:
            jobs.append((P, dseed, dus))

    def go(job):
        P, dseed, dus = job
        env = {}
        if dus > 0:
            env = {"POMEROL_VERIF_DELAY_SEED": str(dseed), "POMEROL_VERIF_DELAY_US": str(dus), "POMEROL_VERIF_DELAY_P": "0.5"}
        tag = "%s.d%d_%d" % (driver, dseed, dus)
        cases, incidents, launches = mpirun.run_cases(vh, driver, P, seed, tier, n, wdir, tag, env, timeout)
        logres = []
        for L in launches:
            done = {c["case"] for c in L["ranks"][0][0]}
            v, s = dispatch_log.check_logs(L["logdir"], complete_cases=done)
            logres.append((v, s))
        return job, env, cases, incidents, launches, logres

    # total rank count of concurrently running launches is kept near the core count
    with cf.ThreadPoolExecutor(max_workers=4 if tier == "quick" else 3) as ex:
        results = list(ex.map(go, jobs))
    for (job, env, cases, incidents, launches, logres) in results:
        P, dseed, dus = job
        stats["launches"] += len(launches)
        stats["configurations"].append(dict(P=P, delay_seed=dseed, delay_us=dus, cases=len(cases)))
        for c in cases:
            c = dict(c)
            c["canon"] = "P=%d|d=%d,%d|%s" % (P, dseed, dus, c.get("canon"))
            out.add_case(c, driver, "P-real")
            if c.get("violations"):
                for v in c["violations"]:
                    w = out.violations.get(v["key"])
                    if w is not None and "np" not in w:
                        w.update(dict(np=P, env=env, replay_special="mpi"))
        for (v, s) in logres:
            for k in ("events", "rounds", "jobs", "work_msgs", "finish_msgs", "seq_gaps"):
                stats[k] += s[k]
            stats["distinct_maps_in_logs"] += s["distinct_maps"]
            for (key, detail) in v:
                out.add_violation(key, dict(driver=driver, flavour="P-real", case=None, monitor="offline-event-log", detail="P=%d delay=(%d,%dus): %s" % (P, dseed, dus, detail), np=P, env=env, replay_special="mpi"))
        for inc in incidents:
            inc["env"] = env
            if inc["kind"] == "hang":
                hang_violation(out, driver, inc, pid)
            elif inc["kind"] in ("slow", "slow-twice"):
                out.inconclusive.append("np=%d case %s exceeded the watchdog (%s) but ranks were still logging events" % (inc["np"], inc.get("case"), inc["kind"]))
                out.counters["slow_runs"] = out.counters.get("slow_runs", 0) + 1
            elif inc["kind"] == "stopped":
                out.counters["launches_stopped_early"] = out.counters.get("launches_stopped_early", 0) + 1
            elif inc["kind"] == "crash":
                site = engine.crash_site_from_stderr(inc.get("stderr") or "") or "rc%s" % inc.get("rc")
                out.add_violation("%s:crash:%s:%s" % (pid, driver, site), dict(driver=driver, flavour="P-real", case=inc["case"], monitor="crash", np=inc["np"], env=env, replay_special="mpi",
                                                                           detail="mpiexec -np %d died in case %s rc=%s; stderr tail: %s" % (inc["np"], inc["case"], inc.get("rc"), (inc.get("stderr") or "")[-2500:])))
            else:
                out.infra.append("np=%d launch failed outside a case rc=%s: %s" % (inc["np"], inc.get("rc"), (inc.get("stderr") or "")[-1200:]))
    if stats["events"] == 0:
        out.inconclusive.append("the hook event logs are empty (guard POMEROL_VERIF not compiled in?)")
    out.extra.update(dict(mpi_launches=stats["launches"], hook_events_logged=stats["events"], dispatch_rounds_in_logs=stats["rounds"], jobs_in_logs=stats["jobs"],
                          work_messages=stats["work_msgs"], finish_messages=stats["finish_msgs"], distinct_job_rank_maps_in_logs=stats["distinct_maps_in_logs"],
                          log_sequence_gaps=stats["seq_gaps"], configurations=stats["configurations"], watchdog_s=timeout))
    floor = 20 if tier == "quick" else 200
    rc = engine.finish(out, rule=RULE, min_nontrivial=floor, assumptions=[
        "interleavings are sampled (rank counts, injected delays, seeded job durations), not enumerated: the 'exhaustive for small configurations' part of the quantifier is out of reach for runtime monitoring",
        "a hang is decided from two watchdog expiries plus silent event logs; OpenMPI/Boost.MPI themselves are trusted"])
    if stats["events"] == 0 and rc == 0:
        return 2
    return rc
