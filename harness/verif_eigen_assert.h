// Force-included (-include) in the A flavour only.  Turns every failed Eigen precondition
// (out-of-range dense index, mis-sized product, ...) into an observable event even though the
// library is built with -DNDEBUG, where Eigen would otherwise silently execute UB.
#ifndef VERIF_EIGEN_ASSERT_H
#define VERIF_EIGEN_ASSERT_H
#ifdef __cplusplus
#include <cstdio>
#include <cstdlib>
#include <unistd.h>
namespace verif_detail {
inline void eigen_assert_fail(const char* file, int line, const char* expr) {
    char buf[1024];
    int n = snprintf(buf, sizeof buf, "VERIF-EIGEN-ASSERT %s:%d %s\n", file, line, expr);
    if (n > 0) { ssize_t r = write(2, buf, (size_t)n); (void)r; }
    abort();
}
}
#define eigen_assert(x) do { if (!(x)) ::verif_detail::eigen_assert_fail(__FILE__, __LINE__, #x); } while (0)
#endif
#endif
