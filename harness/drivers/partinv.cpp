// C08 - observables are invariant under the choice of symmetry partition.
#include "common/vh.hpp"
#include "common/pipeline.hpp"
#include "common/oracle.hpp"
#include "common/partitions.hpp"
#include "common/chitol.hpp"
#include "common/g2tol.hpp"

using namespace vh;

static long partinv_ncases(const std::string& tier) { return tier == "thorough" ? 48000 : 80; }

namespace {
struct Obs {
    std::string name; J desc;
    std::vector<double> spectrum; double E0, avgE, ntot; std::vector<double> occ; std::vector<double> docc;
    std::vector<cd> G; std::vector<double> tolG;           // per (pair, n)
    std::vector<cd> chi; std::vector<double> tolChi;       // per (quad, n) incl. tau points
    std::vector<cd> ea;                                    // ensemble averages
    std::vector<cd> chi4; double S4 = 0; double tol4 = 0; bool straddle = false;
    long blocks = 0;
};
}

static void partinv_run(Ctx& c) {
    Rng& r = c.rng;
    GenOpts g; g.max_modes = c.thorough() ? (r.coin(0.25) ? 6 : 5) : 4; g.min_modes = 2; g.beta_hi = c.thorough() ? 60 : 20; g.allow_unbalanced = true;
    ModelSpec m = gen_model(r, g);
    const bool witness18 = (c.k == 9);      // fixed input of finding #18 (DESIGN 9.3)
    if (witness18) m = finding18_model(false);
    const double beta = m.beta;
    // choose the observables once (by index), shared by all partitions
    int N = m.nmodes();
    std::vector<std::pair<int, int>> pairs; for (int i = 0; i < N; ++i) pairs.push_back({i, i});
    for (int t = 0; t < 6; ++t) { int i = (int)r.range(0, N - 1), j = (int)r.range(0, N - 1); if (i != j) pairs.push_back({i, j}); }
    std::vector<std::array<int, 4>> quads; for (int t = 0; t < 5; ++t) { int a = (int)r.range(0, N - 1), b = (int)r.range(0, N - 1); if (t < 2) quads.push_back({a, b, b, a}); else quads.push_back({a, b, (int)r.range(0, N - 1), (int)r.range(0, N - 1)}); }
    std::vector<std::array<int, 4>> q4s; for (int t = 0; t < 3; ++t) { int a = (int)r.range(0, N - 1), b = (int)r.range(0, N - 1); if (t == 0) q4s.push_back({a, b, b, a}); else q4s.push_back({a, b, (int)r.range(0, N - 1), (int)r.range(0, N - 1)}); }
    std::vector<std::array<long, 3>> triples = {{0, 0, 0}, {0, -1, 0}, {1, -2, 1}, {2, 1, 2}, {1, 0, -1}, {r.range(-2, 2), r.range(-2, 2), r.range(-2, 2)}};
    std::vector<long> ns = {0, -1, 2, -30};
    std::vector<long> bns = {0, 1, -2};
    bool do4 = N <= 3 || (c.thorough() && N <= 4 && r.coin(0.3)) || witness18;

    // partition plan
    std::vector<int> modes; if (m.balanced_spins()) modes.push_back(PM_DEFAULT); modes.push_back(PM_IGNORE); modes.push_back(PM_CUSTOM); if (r.coin(0.5)) modes.push_back(PM_CUSTOM);
    std::vector<Obs> obs;
    for (size_t mi = 0; mi < modes.size(); ++mi) {
        Pipeline p; p.build_lattice(m);
        CMat Href = p.ref_H();
        if ((Href - Href.adjoint()).cwiseAbs().maxCoeff() > 1e-12 * (1 + Href.cwiseAbs().maxCoeff())) { c.skipped = true; return; }
        std::vector<Pomerol::Operator> ioms; J iomdesc = J::arr();
        if (modes[mi] == PM_CUSTOM) { ioms = benign_ioms(r, p, Href, iomdesc); if (ioms.empty()) continue; }
        p.build_states(modes[mi], ioms); p.build_hamiltonian(true); p.build_dm(beta); p.build_ops();
        Obs o; o.name = pm_name(modes[mi]); o.desc = iomdesc; o.blocks = p.nblocks();
        Pomerol::RealVectorType ev = p.H->getEigenValues(); o.spectrum.assign(ev.data(), ev.data() + ev.size()); std::sort(o.spectrum.begin(), o.spectrum.end());
        o.E0 = p.H->getGroundEnergy(); o.avgE = p.DM->getAverageEnergy(); o.ntot = p.DM->getAverageOccupancy();
        for (int i = 0; i < N; ++i) o.occ.push_back(p.DM->getAverageOccupancy((Pomerol::ParticleIndex)i));
        for (auto& ij : pairs) o.docc.push_back(p.DM->getAverageDoubleOccupancy((Pomerol::ParticleIndex)ij.first, (Pomerol::ParticleIndex)ij.second));
        Pipeline::LibBasis lb = p.lib_basis(); RVec wl = p.lib_weights();
        std::vector<CMat> cL((size_t)N); for (int i = 0; i < N; ++i) cL[(size_t)i] = lb.U.adjoint() * jw_c(N, i) * lb.U;
        Pomerol::GFContainer cont(*p.IC, *p.S, *p.H, *p.DM, *p.Ops);
        std::set<Pomerol::IndexCombination2> want; for (auto& ij : pairs) want.insert(Pomerol::IndexCombination2((Pomerol::ParticleIndex)ij.first, (Pomerol::ParticleIndex)ij.second));
        cont.prepareAll(want); cont.computeAll();
        for (auto& ij : pairs) { TolG tg; tg.prepare(lehmann_terms(cL[(size_t)ij.first], cL[(size_t)ij.second].adjoint(), lb.E, wl));
            for (long n : ns) { cd z(0, (2 * n + 1) * M_PI / beta); cd v = cont((Pomerol::ParticleIndex)ij.first, (Pomerol::ParticleIndex)ij.second)(n); o.G.push_back(v); o.tolG.push_back(tg.at(z, v)); }
            cd vt = cont((Pomerol::ParticleIndex)ij.first, (Pomerol::ParticleIndex)ij.second).of_tau(0.3 * beta); o.G.push_back(vt); o.tolG.push_back(tg.tau_tol(beta, vt)); }
        for (auto& q : quads) {
            Pomerol::QuadraticOperator A(*p.IC, *p.S, *p.H, (Pomerol::ParticleIndex)q[0], (Pomerol::ParticleIndex)q[1]); A.prepare(); A.compute();
            Pomerol::QuadraticOperator B(*p.IC, *p.S, *p.H, (Pomerol::ParticleIndex)q[2], (Pomerol::ParticleIndex)q[3]); B.prepare(); B.compute();
            Pomerol::EnsembleAverage EA(*p.S, *p.H, A, *p.DM); EA.prepare(); o.ea.push_back(EA.getResult());
            Pomerol::Susceptibility X(*p.S, *p.H, A, B, *p.DM); X.prepare(); X.compute();
            CMat AL = lb.U.adjoint() * jw_quad(N, q[0], q[1]) * lb.U, BL = lb.U.adjoint() * jw_quad(N, q[2], q[3]) * lb.U;
            TolChi tc; tc.prepare(AL, BL, lb.E, wl, beta);
            // dropped-term effects are C14's subject: use the literal allowance here
            for (long n : bns) { cd v = X(n); o.chi.push_back(v); o.tolChi.push_back(tc.at_freq(2 * n * M_PI / beta, v, true)); }
            cd vt = X.of_tau(0.7 * beta); o.chi.push_back(vt); o.tolChi.push_back(tc.at_tau(0.7 * beta, vt, true));
        }
        if (do4) {
            G2Tol gt; gt.prepare(lb.E, beta, &lb.block); double S = 1e-3 * beta * beta * beta; o.straddle = gt.straddle;
            for (auto& q : q4s) {
                Pomerol::TwoParticleGF X(*p.S, *p.H, p.Ops->getAnnihilationOperator((Pomerol::ParticleIndex)q[0]), p.Ops->getAnnihilationOperator((Pomerol::ParticleIndex)q[1]), p.Ops->getCreationOperator((Pomerol::ParticleIndex)q[2]), p.Ops->getCreationOperator((Pomerol::ParticleIndex)q[3]), *p.DM);
                X.prepare(); X.compute();
                for (auto& t : triples) { cd v = X(t[0], t[1], t[2]); o.chi4.push_back(v); S = std::max(S, std::abs(v)); }
            }
            o.S4 = S; o.tol4 = gt.tol(S);
        }
        obs.push_back(o);
    }
    if (c.replay && do4 && !obs.empty()) {
        // replay aid: the definition integral of the compared two-particle values, so that the witness shows which partition deviates
        Pipeline p0; p0.build_lattice(m); RefED ed; ed.solve(p0.ref_H());
        J ov = J::arr(); auto wn = [&](long n) { return (2 * n + 1) * M_PI / beta; };
        for (auto& q : q4s) for (auto& t : triples) {
            cd v = expm_chi4(ed, jw_c(N, q[0]), jw_c(N, q[1]), jw_c(N, q[2]).adjoint(), jw_c(N, q[3]).adjoint(), beta, wn(t[0]), wn(t[1]), wn(t[2]));
            J row = J::obj().set("quad", std::to_string(q[0]) + std::to_string(q[1]) + std::to_string(q[2]) + std::to_string(q[3])).set("n", std::to_string(t[0]) + "," + std::to_string(t[1]) + "," + std::to_string(t[2])).set("definition", v);
            size_t idx = (size_t)(&q - &q4s[0]) * triples.size() + (size_t)(&t - &triples[0]);
            for (auto& o : obs) if (idx < o.chi4.size()) row.set(o.name, o.chi4[idx]);
            ov.push(row);
        }
        c.extra.set("chi4_vs_definition", ov);
    }
    c.model = m.describe();
    J parts = J::arr(); for (auto& o : obs) parts.push(J::obj().set("mode", o.name).set("ioms", o.desc).set("blocks", o.blocks));
    c.features.set("N", N).set("partitions", (long)obs.size()); c.extra.set("partitions", parts);
    c.canon = m.canon() + parts.str();
    if (obs.size() < 2) { c.skipped = true; return; }
    double scale = 1; for (double e : obs[0].spectrum) scale = std::max(scale, std::abs(e));
    bool differ = false;
    for (size_t k = 1; k < obs.size(); ++k) {
        const Obs& a = obs[0]; const Obs& b = obs[k];
        if (a.blocks != b.blocks) differ = true;
        std::string pk = a.name + "-vs-" + b.name;
        auto det = [&](const std::string& what) { return [what, pk, beta] { return what + " (" + pk + ") beta=" + fmt(beta); }; };
        if (c.check("spectrum-size", "C08:spectrum-size:" + pk, a.spectrum.size() == b.spectrum.size(), det("number of eigenvalues")))
            for (size_t n = 0; n < a.spectrum.size(); ++n) c.cmp("spectrum", "C08:spectrum:" + pk, b.spectrum[n], a.spectrum[n], 1e-10 * scale, det("sorted eigenvalue #" + std::to_string(n)));
        c.cmp("ground-energy", "C08:ground-energy:" + pk, b.E0, a.E0, 1e-10 * scale, det("ground energy"));
        double trel = 1e-10 + 1e-12 * beta * scale;
        c.cmp("average-energy", "C08:average-energy:" + pk, b.avgE, a.avgE, trel * scale, det("<E>"));
        c.cmp("occupancy-total", "C08:occupancy:" + pk, b.ntot, a.ntot, trel * N, det("<N>"));
        for (size_t i = 0; i < a.occ.size(); ++i) c.cmp("occupancy", "C08:occupancy:" + pk, b.occ[i], a.occ[i], trel * 4, det("<n_" + std::to_string(i) + ">"));
        for (size_t i = 0; i < a.docc.size(); ++i) c.cmp("double-occupancy", "C08:double-occupancy:" + pk, b.docc[i], a.docc[i], trel * 4, det("<n n> pair #" + std::to_string(i)));
        for (size_t i = 0; i < a.ea.size(); ++i) c.cmp("ensemble-average", "C08:ensemble-average:" + pk, b.ea[i], a.ea[i], trel * 4 + 1e-9, det("<c+c> #" + std::to_string(i)));
        for (size_t i = 0; i < a.G.size(); ++i) c.cmp("greens-function", "C08:greens-function:" + pk, b.G[i], a.G[i], a.tolG[i] + b.tolG[i], det("G value #" + std::to_string(i) + " (pair " + std::to_string(i / (ns.size() + 1)) + ")"));
        for (size_t i = 0; i < a.chi.size(); ++i) c.cmp("susceptibility", "C08:susceptibility:" + pk, b.chi[i], a.chi[i], a.tolChi[i] + b.tolChi[i], det("susceptibility value #" + std::to_string(i)));
        for (size_t i = 0; i < a.chi4.size(); ++i) c.cmp("chi4", (a.straddle || b.straddle) ? std::string("C08:chi4:merge-vs-resonance-window") : "C08:chi4:" + pk, b.chi4[i], a.chi4[i], a.tol4 + b.tol4, det("chi4 value #" + std::to_string(i)));
    }
    c.count("partitions", (long)obs.size()); c.count("chi4_compared", do4 ? 1 : 0);
    c.nontrivial = differ && N >= 2;
}

VH_DRIVER(partinv, partinv_ncases, partinv_run);
