// C11 - Green's function obeys fermionic symmetry, sum rules and tau/frequency duality.
#include "common/vh.hpp"
#include "common/pipeline.hpp"
#include "common/oracle.hpp"

using namespace vh;

static long gfsym_ncases(const std::string& tier) { return tier == "thorough" ? 80000 : 128; }

namespace {
// 16-point Gauss-Legendre nodes/weights on [-1,1]
const double GLX[8] = {0.0950125098376374, 0.2816035507792589, 0.4580167776572274, 0.6178762444026438, 0.7554044083550030, 0.8656312023878318, 0.9445750230732326, 0.9894009349916499};
const double GLW[8] = {0.1894506104550685, 0.1826034150449236, 0.1691565193950025, 0.1495959888165767, 0.1246289712555339, 0.0951585116824928, 0.0622535239386479, 0.0271524594117541};
}

static void gfsym_run(Ctx& c) {
    Rng& r = c.rng;
    GenOpts g; g.max_modes = c.thorough() ? (r.coin(0.2) ? 6 : 5) : 4;
    bool stress = (c.k % 5 == 4);                    // very large beta*|P|: both branches of the tau formula must stay finite
    g.beta_hi = c.thorough() ? 100.0 : 30.0;
    int pmode = (c.k % 3 == 2) ? PM_IGNORE : PM_DEFAULT;
    g.allow_unbalanced = (pmode == PM_IGNORE);
    ModelSpec m = gen_model(r, g);
    if (stress) m.beta = r.logu(200, 2000);
    Pipeline p; p.build_lattice(m);
    CMat Href = p.ref_H(); RefED ed; ed.solve(Href);
    if (ed.herm_defect() > 1e-12 * (1 + ed.hnorm)) { c.skipped = true; return; }
    p.build_states(pmode); p.build_hamiltonian(true); p.build_dm(m.beta); p.build_ops();
    const int N = p.N; const double beta = m.beta; const long dim = p.dim;
    c.model = m.describe(); c.canon = m.canon() + "|" + pm_name(pmode) + (stress ? "|stress" : "");
    double bw = ed.E.maxCoeff() - ed.E.minCoeff();
    c.features.set("partition", pm_name(pmode)).set("N", N).set("pclass", m.pclass).set("stress", stress).set("beta_bw_decade", (long)std::floor(std::log10(std::max(beta * bw, 1e-3))));
    Pipeline::LibBasis lb = p.lib_basis(); RVec wlib = p.lib_weights(); RVec wref = ed.weights(beta);
    Pomerol::GFContainer cont(*p.IC, *p.S, *p.H, *p.DM, *p.Ops); cont.prepareAll(); cont.computeAll();

    std::vector<std::pair<int, int>> pairs;
    if (N <= 3) { for (int i = 0; i < N; ++i) for (int j = 0; j < N; ++j) pairs.push_back({i, j}); }
    else { for (int i = 0; i < N; ++i) pairs.push_back({i, i}); std::set<std::pair<int, int>> seen; for (int t = 0; t < 8; ++t) { int i = (int)r.range(0, N - 1), j = (int)r.range(0, N - 1); if (i != j && seen.insert({i, j}).second) pairs.push_back({i, j}); } }
    std::vector<CMat> cL((size_t)N), cR((size_t)N);
    for (int i = 0; i < N; ++i) { CMat cf = jw_c(N, i); cL[(size_t)i] = lb.U.adjoint() * cf * lb.U; cR[(size_t)i] = ed.rot(cf); }
    double hn = ed.hnorm; long nquad = 0;
    for (auto& ij : pairs) {
        int i = ij.first, j = ij.second;
        Pomerol::GreensFunction& G = cont((Pomerol::ParticleIndex)i, (Pomerol::ParticleIndex)j);
        Pomerol::GreensFunction& Gt = cont((Pomerol::ParticleIndex)j, (Pomerol::ParticleIndex)i);
        TolG tol; tol.prepare(lehmann_terms(cL[(size_t)i], cL[(size_t)j].adjoint(), lb.E, wlib));
        std::string kind = (i == j) ? "diag" : "offdiag";
        std::string ijs = "G_{" + std::to_string(i) + "," + std::to_string(j) + "}";
        // (1) conj(G_ij(z)) = G_ji(conj z), z off both axes
        for (int t = 0; t < 4; ++t) {
            cd z(r.sym(3 * (1 + hn)), (r.coin() ? 1 : -1) * r.logu(0.05, 3 * (1 + hn)));
            cd a = std::conj(G(Pomerol::ComplexType(z))), b = Gt(Pomerol::ComplexType(std::conj(z)));
            c.cmp("conjugation-symmetry", "C11:conjugation-symmetry:" + kind, a, b, 2 * tol.at(z, a), [&] { return "conj(" + ijs + "(z)) vs G_ji(conj z), z=" + fmt(z); });
        }
        // (2) tail: z G(z) -> delta_ij
        for (int t = 0; t < 3; ++t) {
            double mag = r.logu(1e4, 1e8) * (1 + hn); double ph = r.uni(0.05, M_PI - 0.05) * (r.coin() ? 1 : -1); cd z = mag * cd(std::cos(ph), std::sin(ph));
            cd v = z * G(Pomerol::ComplexType(z));
            double tt = 2.1 * 2 * hn / (mag - 2 * hn) + tol.tau_tol(0.0, v) + 1e-10;
            c.cmp("tail", "C11:tail:" + kind, v, (i == j) ? cd(1, 0) : cd(0, 0), tt, [&] { return "z*" + ijs + "(z) at |z|=" + fmt(mag); });
        }
        // (3) Im G_ii(i w_n) < 0 for w_n > 0
        if (i == j) for (long n : {0L, 1L, 7L, 300L}) { cd v = G(n); c.check("negative-imag", "C11:negative-imag", v.imag() < 0, [&] { return "Im " + ijs + "(n=" + std::to_string(n) + ") = " + fmt(v.imag()) + " beta=" + fmt(beta); }); }
        // (4) of_tau vs trace oracle on a grid and at both ends; (5) G_ii(tau) <= 0
        std::vector<double> taus = {0.0, beta, 0.5 * beta, 1e-3 * beta, (1 - 1e-3) * beta, r.uni(0, 1) * beta, r.uni(0, 1) * beta};
        cd g0, gb;
        for (size_t t = 0; t < taus.size(); ++t) {
            double tau = taus[t];
            cd ref = -trace_tau(cR[(size_t)i], cR[(size_t)j].adjoint(), ed.E, ed.E0, beta, tau);
            cd v = G.of_tau(tau); if (t == 0) g0 = v; if (t == 1) gb = v;
            bool fin = std::isfinite(v.real()) && std::isfinite(v.imag());
            c.check("tau-finite", std::string("C11:tau-finite:") + (stress ? "large-beta" : "normal"), fin, [&] { return ijs + ".of_tau(" + fmt(tau) + ") not finite, beta=" + fmt(beta) + " bandwidth=" + fmt(bw); });
            c.cmp("tau-vs-trace", "C11:tau-vs-trace:" + kind, v, ref, tol.tau_tol(beta, ref), [&] { return ijs + ".of_tau(" + fmt(tau) + ") beta=" + fmt(beta); });
            if (i == j) c.check("tau-nonpositive", "C11:tau-nonpositive", v.real() <= 1e-12 && std::abs(v.imag()) <= 1e-12, [&] { return ijs + ".of_tau(" + fmt(tau) + ") = " + fmt(v); });
        }
        // (6) G(0+) + G(beta-) = -delta_ij ; (7) G_ii(beta-) = -<n_i>
        c.cmp("tau-sum-rule", "C11:tau-sum-rule:" + kind, g0 + gb, (i == j) ? cd(-1, 0) : cd(0, 0), tol.tau_tol(beta, g0) + 1e-10, [&] { return ijs + "(0+)+" + ijs + "(beta-) beta=" + fmt(beta); });
        if (i == j) c.cmp("density-sum-rule", "C11:density-sum-rule", gb, -p.DM->getAverageOccupancy((Pomerol::ParticleIndex)i), tol.tau_tol(beta, gb) + 1e-9, [&] { return ijs + "(beta-) vs -<n_i> from the density matrix, beta=" + fmt(beta); });
        // (8) forward transform of of_tau by composite Gauss-Legendre equals operator()(n)
        if (!stress && N <= 4 && nquad < 4 && beta * (2 * hn + 1) < 3000) {
            ++nquad;
            for (long n : {0L, -1L, 3L}) {
                double w = (2 * n + 1) * M_PI / beta;
                double h = 1.0 / (2 * hn + std::abs(w) + 1); long np = std::max(1L, (long)std::ceil(beta / h)); h = beta / np;
                cd acc = 0;
                for (long q = 0; q < np; ++q) { double a = q * h, mid = a + h / 2;
                    for (int k = 0; k < 8; ++k) for (int sgn = -1; sgn <= 1; sgn += 2) { double tau = mid + sgn * GLX[k] * h / 2; acc += GLW[k] * (h / 2) * cd(G.of_tau(tau)) * std::exp(cd(0, w * tau)); } }
                cd v = G(n);
                c.cmp("tau-frequency-duality", "C11:tau-frequency-duality:" + kind, acc, v, 1e-9 * (1 + beta) + 1e-9 * std::abs(v), [&] { return "Gauss-Legendre transform of " + ijs + ".of_tau vs operator()(" + std::to_string(n) + ") beta=" + fmt(beta) + " panels=" + std::to_string(np); });
            }
        }
    }
    c.count("index_pairs", (long)pairs.size()); c.count("quadrature_transforms", nquad * 3);
    c.nontrivial = dim >= 4 && bw > 0;
}

VH_DRIVER(gfsym, gfsym_ncases, gfsym_run);
