// C17 helper driver: boundary probes named by the property's anchors.  Verdicts come from the instrumentation (ASan / UBSan / Eigen
// precondition checks / memcheck) watching these calls; the driver's own monitors only record what the documented bounds checks did.
#include "common/vh.hpp"
#include "common/pipeline.hpp"
#include "common/oracle.hpp"
#include "common/isolate.hpp"
#include <pomerol/Vertex4.h>

using namespace vh;

static long bounds_ncases(const std::string& tier) { return tier == "thorough" ? 400 : 48; }

static void bounds_run(Ctx& c) {
    Rng& r = c.rng;
    GenOpts g; g.max_modes = c.thorough() ? 5 : 4; g.min_modes = 1; g.allow_unbalanced = true; g.allow_spin_major = true; g.beta_hi = 20;
    ModelSpec m = gen_model(r, g);
    int pmode = (int)r.range(0, 1);
    Pipeline p; p.build_all(m, pmode);
    const int N = p.N; const long dim = p.dim; const double beta = m.beta;
    c.model = m.describe(); c.canon = m.canon() + "|" + pm_name(pmode);
    c.features.set("N", N).set("partition", pm_name(pmode)).set("blocks", p.nblocks());
    long n1x1 = 0; for (long b = 0; b < p.nblocks(); ++b) if (p.S->getBlockSize(Pomerol::BlockNumber((int)b)) == 1) ++n1x1;
    c.count("blocks_1x1", n1x1);
    // --- state labels at and beyond the boundary: the documented behaviour of an invalid label is an exception, never a read
    for (unsigned long s : {(unsigned long)dim, (unsigned long)dim + 1, (unsigned long)dim * 2}) {
        std::string sk = (s == (unsigned long)dim) ? "label=2^N" : "label>2^N";
        bool t1 = false, t2 = false, t3 = false, t4 = false;
        try { (void)p.S->getBlockNumber((Pomerol::QuantumState)s); } catch (const std::exception&) { t1 = true; }
        try { (void)p.S->getInnerState((Pomerol::QuantumState)s); } catch (const std::exception&) { t2 = true; }
        try { (void)p.S->getBlockNumber(Pomerol::FockState(N + 2, s)); } catch (const std::exception&) { t3 = true; }
        try { (void)p.S->getInnerState(Pomerol::FockState(N + 2, s)); } catch (const std::exception&) { t4 = true; }
        c.check("state-label-bound", "C17:bounds:getBlockNumber(QuantumState):" + sk, t1, [&] { return "StatesClassification::getBlockNumber(" + std::to_string(s) + ") did not throw for 2^N=" + std::to_string(dim); });
        c.check("state-label-bound", "C17:bounds:getInnerState(QuantumState):" + sk, t2, [&] { return "StatesClassification::getInnerState(" + std::to_string(s) + ") did not throw for 2^N=" + std::to_string(dim); });
        c.check("state-label-bound", "C17:bounds:getBlockNumber(FockState):" + sk, t3, [&] { return "StatesClassification::getBlockNumber(FockState " + std::to_string(s) + ") did not throw for 2^N=" + std::to_string(dim); });
        c.check("state-label-bound", "C17:bounds:getInnerState(FockState):" + sk, t4, [&] { return "StatesClassification::getInnerState(FockState " + std::to_string(s) + ") did not throw for 2^N=" + std::to_string(dim); });
    }
    { bool t = false; try { (void)p.S->getFockState(Pomerol::BlockNumber(0), (Pomerol::InnerQuantumState)p.S->getBlockSize(Pomerol::BlockNumber(0))); } catch (const std::exception&) { t = true; }
      c.check("inner-state-bound", "C17:bounds:getFockState:pos=size", t, [&] { return std::string("getFockState(block 0, size) did not throw"); }); }
    { bool t = false; try { (void)p.S->getFockState(Pomerol::BlockNumber((int)p.nblocks()), 0); } catch (const std::exception&) { t = true; }
      c.check("block-bound", "C17:bounds:getFockState:block=nblocks", t, [&] { return std::string("getFockState(nblocks, 0) did not throw"); }); }
    { bool t = false; try { (void)p.IC->getInfo((Pomerol::ParticleIndex)N); } catch (const std::exception&) { t = true; }
      c.check("index-bound", "C17:bounds:getInfo:index=size", t, [&] { return std::string("IndexClassification::getInfo(size) did not throw"); }); }
    // --- the documented workflow with empty frequency lists, off-diagonal components, one-dimensional blocks
    int i = (int)r.range(0, N - 1), j = (int)r.range(0, N - 1), k = (int)r.range(0, N - 1), l = (int)r.range(0, N - 1);
    Pomerol::GFContainer G(*p.IC, *p.S, *p.H, *p.DM, *p.Ops); G.prepareAll(); G.computeAll();
    cd acc = 0; for (int a = 0; a < N; ++a) for (int b = 0; b < N; ++b) acc += cd(G((Pomerol::ParticleIndex)a, (Pomerol::ParticleIndex)b)(0)) + cd(G((Pomerol::ParticleIndex)a, (Pomerol::ParticleIndex)b).of_tau(0.5 * beta));
    Pomerol::TwoParticleGF X(*p.S, *p.H, p.Ops->getAnnihilationOperator((Pomerol::ParticleIndex)i), p.Ops->getAnnihilationOperator((Pomerol::ParticleIndex)j), p.Ops->getCreationOperator((Pomerol::ParticleIndex)k), p.Ops->getCreationOperator((Pomerol::ParticleIndex)l), *p.DM);
    X.prepare();
    std::vector<Pomerol::ComplexType> tab = X.compute();                 // default arguments: empty frequency list
    c.check("empty-freq-table", "C17:empty-frequency-list:table-not-empty", tab.empty(), [&] { return "compute() with an empty frequency list returned " + std::to_string(tab.size()) + " values"; });
    acc += cd(X(0, 0, 0));
    Pomerol::TwoParticleGF Y(*p.S, *p.H, p.Ops->getAnnihilationOperator((Pomerol::ParticleIndex)i), p.Ops->getAnnihilationOperator((Pomerol::ParticleIndex)j), p.Ops->getCreationOperator((Pomerol::ParticleIndex)j), p.Ops->getCreationOperator((Pomerol::ParticleIndex)i), *p.DM);
    Y.prepare();
    std::vector<boost::tuple<Pomerol::ComplexType, Pomerol::ComplexType, Pomerol::ComplexType>> one(1, boost::make_tuple(cd(0, M_PI / beta), cd(0, -M_PI / beta), cd(0, M_PI / beta)));
    std::vector<Pomerol::ComplexType> t1 = Y.compute(true, one);
    c.check("one-freq-table", "C17:one-frequency:table-size", t1.size() == 1 || (Y.isVanishing() && t1.empty()), [&] { return std::string("table size for one frequency"); });
    Pomerol::GreensFunction &G13 = G((Pomerol::ParticleIndex)i, (Pomerol::ParticleIndex)k), &G24 = G((Pomerol::ParticleIndex)j, (Pomerol::ParticleIndex)l), &G14 = G((Pomerol::ParticleIndex)i, (Pomerol::ParticleIndex)l), &G23 = G((Pomerol::ParticleIndex)j, (Pomerol::ParticleIndex)k);
    Pomerol::Vertex4 V(X, G13, G24, G14, G23); V.compute(0); acc += cd(V(0, 0, 0)); V.compute(1); acc += cd(V(-1, 0, -1)) + cd(V(5, -5, 2));
    Pomerol::QuadraticOperator A(*p.IC, *p.S, *p.H, (Pomerol::ParticleIndex)i, (Pomerol::ParticleIndex)j), B(*p.IC, *p.S, *p.H, (Pomerol::ParticleIndex)k, (Pomerol::ParticleIndex)l);
    A.prepare(); A.compute(); B.prepare(); B.compute();
    Pomerol::Susceptibility chi(*p.S, *p.H, A, B, *p.DM); chi.prepare(); chi.compute(); chi.subtractDisconnected(); acc += cd(chi(0)) + cd(chi(1)) + cd(chi.of_tau(0.2 * beta));
    Pomerol::TwoParticleGFContainer C4(*p.IC, *p.S, *p.H, *p.DM, *p.Ops);
    std::set<Pomerol::IndexCombination4> q; q.insert(Pomerol::IndexCombination4((Pomerol::ParticleIndex)i, (Pomerol::ParticleIndex)j, (Pomerol::ParticleIndex)k, (Pomerol::ParticleIndex)l));
    C4.prepareAll(q); C4.computeAll(false); acc += cd(C4((Pomerol::ParticleIndex)i, (Pomerol::ParticleIndex)j, (Pomerol::ParticleIndex)k, (Pomerol::ParticleIndex)l)(0, 0, 0));
    Pomerol::TwoParticleGFContainer C5(*p.IC, *p.S, *p.H, *p.DM, *p.Ops); C5.prepareAll(q); C5.computeAll(true, one, boost::mpi::communicator(), true);
    // --- repeated calls of the early workflow stages (the later stages guard on their status; see the idempotence monitors of the other drivers):
    //     IndexClassification::prepare() called again with the same and with the other ordering, in a child process
    {
        IsoResult ir = run_isolated([&]() -> std::string {
            Pomerol::Lattice L2; apply_model(m, L2);
            Pomerol::IndexClassification IC2(L2.getSiteMap());
            IC2.prepare(m.spin_major); const long n1 = (long)IC2.getIndexSize();
            IC2.prepare(m.spin_major); const long n2 = (long)IC2.getIndexSize();
            IC2.prepare(!m.spin_major); const long n3 = (long)IC2.getIndexSize();
            long bad = 0; for (long q = 0; q < n3; ++q) if ((long)IC2.getIndex(IC2.getInfo((Pomerol::ParticleIndex)q)) != q) ++bad;
            return "sizes " + std::to_string(n1) + " " + std::to_string(n2) + " " + std::to_string(n3) + " bad " + std::to_string(bad);
        }, 30);
        const bool alive = ir.exited && ir.exit_code == 0 && ir.out.compare(0, 4, "EXC:") != 0;
        c.check("repeated-call", "C17:repeated-call:IndexClassification::prepare:" + (alive ? std::string("ok") : (ir.exited ? std::string("exception-or-exit") : sig_name(ir.sig))), alive,
                [&] { return "IndexClassification::prepare() called a second and third time on the same object (N=" + std::to_string(N) + "): child " + (ir.exited ? "exited with " + std::to_string(ir.exit_code) + " output '" + ir.out.substr(0, 120) + "'" : "was killed by " + sig_name(ir.sig)); });
        c.count("repeated_prepare_probes");
    }
    c.check("finite", "C17:workflow:non-finite", std::isfinite(acc.real()) && std::isfinite(acc.imag()), [&] { return "sum of observed values is not finite: " + fmt(acc); });
    c.nontrivial = dim >= 2;
}

VH_DRIVER(bounds, bounds_ncases, bounds_run);
