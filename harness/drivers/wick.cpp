// C12 - Wick's theorem: quadratic models give the free propagator and a vanishing irreducible vertex.
#include "common/vh.hpp"
#include "common/pipeline.hpp"
#include "common/oracle.hpp"
#include "common/g2tol.hpp"
#include <Eigen/LU>
#include <pomerol/Vertex4.h>

using namespace vh;

static long wick_ncases(const std::string& tier) { return tier == "thorough" ? 20000 : 48; }

static void wick_run(Ctx& c) {
    Rng& r = c.rng;
    // ---- a quadratic model: sum_ab h_ab c+_a c_b with a general Hermitian h over all modes
    ModelSpec m; m.pclass = "quadratic";
    int target = (int)r.range(2, c.thorough() ? 4 : (r.coin(0.35) ? 4 : 3));
    std::vector<std::string> pool = label_pool(); int modes = 0;
    while (modes < target) {
        SiteSpec s; size_t li = (size_t)r.range(0, (long)pool.size() - 1); s.label = pool[li]; pool.erase(pool.begin() + (long)li);
        s.norb = 1; s.nspin = (target - modes >= 2 && r.coin(0.7)) ? 2 : 1; if (target - modes >= 2 && r.coin(0.15)) { s.norb = 2; s.nspin = 1; }
        m.sites.push_back(s); modes += s.norb * s.nspin;
    }
    m.beta = r.logu(0.3, c.thorough() ? 60.0 : 20.0);
    const bool witness18 = (c.k == 9);       // fixed input of finding #18 (DESIGN 9.3): two levels per spin, hopping 0.3, Zeeman splittings 2e-8 and 8e-9, one block
    if (witness18) { m.sites.clear(); for (int s = 0; s < 2; ++s) { SiteSpec S; S.label = s ? "B" : "A"; S.norb = 1; S.nspin = 2; m.sites.push_back(S); } m.beta = 4.0; }
    const bool cold = !witness18 && (c.k % 6 == 5);        // beta*(level spacing) of many hundreds: Boltzmann factors under/overflow, the vertex must still vanish
    if (cold) m.beta = r.logu(150, 700);
    std::vector<std::array<int, 3>> modelist;
    for (int s = 0; s < (int)m.sites.size(); ++s) for (int o = 0; o < m.sites[(size_t)s].norb; ++o) for (int z = 0; z < m.sites[(size_t)s].nspin; ++z) modelist.push_back({s, o, z});
    const int N = (int)modelist.size();
    static const char* classes[] = {"generic", "degenerate", "zero", "block-diagonal", "rank-deficient", "integers", "generic", "degenerate"};
    std::string hclass = classes[r.range(0, 7)];
    if (witness18) hclass = "finding18";
    CMat hm = CMat::Zero(N, N);   // in the order of modelist
    auto amp = [&]() { double re = (hclass == "integers") ? double(r.range(-2, 2)) : r.sym(1.5); if (kComplexBuild && r.coin(0.7)) { double ph = r.uni(0, 2 * M_PI); return re * cd(std::cos(ph), std::sin(ph)); } return cd(re, 0); };
    if (hclass == "finding18") { hm(0, 0) = -0.5 + 1e-8; hm(1, 1) = -0.5 - 1e-8; hm(2, 2) = -0.4 + 4e-9; hm(3, 3) = -0.4 - 4e-9; hm(0, 2) = hm(2, 0) = 0.3; hm(1, 3) = hm(3, 1) = 0.3; }
    else if (hclass == "degenerate") { double e = r.coin(0.3) ? 0.0 : r.sym(1.0); for (int a = 0; a < N; ++a) hm(a, a) = e; if (r.coin(0.5) && N >= 2) { cd t = amp(); hm(0, 1) = t; hm(1, 0) = std::conj(t); if (N >= 4) { hm(2, 3) = t; hm(3, 2) = std::conj(t); } } }
    else if (hclass == "zero") {}
    else if (hclass == "block-diagonal") { for (int a = 0; a < N; ++a) hm(a, a) = r.sym(1.5); for (int a = 0; a + 1 < N; a += 2) { cd t = amp(); hm(a, a + 1) = t; hm(a + 1, a) = std::conj(t); } }
    else if (hclass == "rank-deficient") { CVec v(N); for (int a = 0; a < N; ++a) v(a) = amp(); hm = v * v.adjoint(); }
    else { for (int a = 0; a < N; ++a) { hm(a, a) = (hclass == "integers") ? double(r.range(-2, 2)) : r.sym(1.5); for (int b = a + 1; b < N; ++b) if (r.coin(0.7)) { cd t = amp(); hm(a, b) = t; hm(b, a) = std::conj(t); } } }
    for (int a = 0; a < N; ++a) {
        if (hm(a, a).real() != 0.0) { Op o; o.kind = Op::RAW; RawTerm t; t.dag = {1, 0}; t.site = {modelist[(size_t)a][0], modelist[(size_t)a][0]}; t.orb = {modelist[(size_t)a][1], modelist[(size_t)a][1]}; t.spin = {modelist[(size_t)a][2], modelist[(size_t)a][2]}; t.val = hm(a, a).real(); o.raw = t; m.ops.push_back(o); }
        for (int b = a + 1; b < N; ++b) if (std::abs(hm(a, b)) > 0) {
            Op o; o.kind = Op::HOP4; o.a = modelist[(size_t)a][0]; o.b = modelist[(size_t)b][0]; o.o1 = modelist[(size_t)a][1]; o.o2 = modelist[(size_t)b][1]; o.s1 = modelist[(size_t)a][2]; o.s2 = modelist[(size_t)b][2]; o.v1 = hm(a, b); m.ops.push_back(o); }
    }
    int pmode = (!m.balanced_spins() || c.k % 3 == 2 || witness18) ? PM_IGNORE : PM_DEFAULT;
    Pipeline p; p.build_all(m, pmode);
    const double beta = m.beta;
    c.model = m.describe(); c.canon = m.canon() + "|" + pm_name(pmode) + (cold ? "|cold" : "");
    c.features.set("cold", cold).set("N", N).set("hclass", hclass).set("partition", pm_name(pmode)).set("blocks", p.nblocks());
    // h in the library's index order
    std::vector<int> idx((size_t)N); for (int a = 0; a < N; ++a) idx[(size_t)a] = p.index_of(modelist[(size_t)a][0], modelist[(size_t)a][1], modelist[(size_t)a][2]);
    CMat h = CMat::Zero(N, N); for (int a = 0; a < N; ++a) for (int b = 0; b < N; ++b) h(idx[(size_t)a], idx[(size_t)b]) = hm(a, b);
    double hn = h.cwiseAbs().rowwise().sum().maxCoeff();

    Pipeline::LibBasis lb = p.lib_basis(); RVec wlib = p.lib_weights();
    std::vector<CMat> cL((size_t)N); for (int i = 0; i < N; ++i) cL[(size_t)i] = lb.U.adjoint() * jw_c(N, i) * lb.U;
    std::vector<TolG> tg((size_t)(N * N));
    for (int i = 0; i < N; ++i) for (int j = 0; j < N; ++j) tg[(size_t)(i * N + j)].prepare(lehmann_terms(cL[(size_t)i], cL[(size_t)j].adjoint(), lb.E, wlib));
    Pomerol::GFContainer cont(*p.IC, *p.S, *p.H, *p.DM, *p.Ops); cont.prepareAll(); cont.computeAll();

    // ---- (a) G(z) = (z - h)^{-1}
    std::vector<cd> zs; for (long n : {0L, -1L, 4L}) zs.push_back(cd(0, (2 * n + 1) * M_PI / beta));
    for (int t = 0; t < 3; ++t) zs.push_back(cd(r.sym(2 * (1 + hn)), (r.coin() ? 1 : -1) * r.logu(0.1, 2 * (1 + hn))));
    for (cd z : zs) {
        CMat ref = (z * CMat::Identity(N, N) - h).inverse();
        for (int i = 0; i < N; ++i) for (int j = 0; j < N; ++j) {
            cd v = cont((Pomerol::ParticleIndex)i, (Pomerol::ParticleIndex)j)(Pomerol::ComplexType(z));
            c.cmp("free-propagator", std::string("C12:free-propagator:") + (i == j ? "diag" : "offdiag"), v, ref(i, j), tg[(size_t)(i * N + j)].at(z, ref(i, j)) + 1e-10 * std::abs(ref(i, j)), [&] { return "G_{" + std::to_string(i) + "," + std::to_string(j) + "}(z=" + fmt(z) + ") vs [(z-h)^-1], class " + hclass + " beta=" + fmt(beta); });
        }
    }
    // ---- (b) vertex vanishes
    std::vector<std::array<int, 4>> quads;
    if (N == 2) { for (int a = 0; a < 2; ++a) for (int b = 0; b < 2; ++b) for (int cc = 0; cc < 2; ++cc) for (int d = 0; d < 2; ++d) quads.push_back({a, b, cc, d}); }
    else { std::set<std::array<int, 4>> seen; auto add = [&](std::array<int, 4> q) { if (seen.insert(q).second) quads.push_back(q); };
        auto rq = [&]() { return (int)r.range(0, N - 1); };
        add({0, 0, 0, 0}); { int a = rq(), b = (a + 1 + (int)r.range(0, N - 2)) % N; add({a, b, b, a}); add({a, b, a, b}); add({a, a, b, b}); }
        int nr = (N == 3 ? 14 : 6) * (c.thorough() ? 2 : 1); for (int t = 0; t < nr; ++t) add({rq(), rq(), rq(), rq()}); }
    G2Tol gt; gt.prepare(lb.E, beta, &lb.block);
    long nres = 0, nonzero_chi = 0;
    auto wn = [&](long n) { return (2 * n + 1) * M_PI / beta; };
    for (auto& q : quads) {
        Pomerol::TwoParticleGF chi(*p.S, *p.H, p.Ops->getAnnihilationOperator((Pomerol::ParticleIndex)q[0]), p.Ops->getAnnihilationOperator((Pomerol::ParticleIndex)q[1]),
                                   p.Ops->getCreationOperator((Pomerol::ParticleIndex)q[2]), p.Ops->getCreationOperator((Pomerol::ParticleIndex)q[3]), *p.DM);
        chi.prepare(); chi.compute();
        for (size_t pp = 0; pp < chi.parts.size(); ++pp) nres += (long)chi.parts[pp]->getNumResonantTerms();
        Pomerol::GreensFunction &G13 = cont((Pomerol::ParticleIndex)q[0], (Pomerol::ParticleIndex)q[2]), &G24 = cont((Pomerol::ParticleIndex)q[1], (Pomerol::ParticleIndex)q[3]),
                                &G14 = cont((Pomerol::ParticleIndex)q[0], (Pomerol::ParticleIndex)q[3]), &G23 = cont((Pomerol::ParticleIndex)q[1], (Pomerol::ParticleIndex)q[2]);
        Pomerol::Vertex4 V(chi, G13, G24, G14, G23);
        double S = 1e-3 * beta * beta * beta; std::vector<cd> vals; std::vector<std::array<long, 3>> pts;
        for (long a = -2; a <= 2; ++a) for (long b = -2; b <= 2; ++b) for (long d = -2; d <= 2; ++d) { pts.push_back({a, b, d}); S = std::max(S, std::abs(cd(chi(a, b, d)))); }
        if (S > 1e-3 * beta * beta * beta * 1.0001) ++nonzero_chi;
        std::string qs = "Gamma_{" + std::to_string(q[0]) + std::to_string(q[1]) + std::to_string(q[2]) + std::to_string(q[3]) + "}";
        for (auto& pt : pts) {
            cd v = V.value(pt[0], pt[1], pt[2]);
            // tolerance: chi's own tolerance + beta*(|G| tau_G' + |G'| tau_G) for each disconnected term that fires
            double t = 2 * gt.tol(S);
            auto gtol = [&](int a, int b, long n) { cd z(0, wn(n)); cd g = cont((Pomerol::ParticleIndex)a, (Pomerol::ParticleIndex)b)(n); return std::make_pair(std::abs(g), tg[(size_t)(a * N + b)].at(z, g)); };
            if (pt[0] == pt[2]) { auto x = gtol(q[0], q[2], pt[0]); auto y = gtol(q[1], q[3], pt[1]); t += beta * (x.first * y.second + y.first * x.second + x.second * y.second); }
            if (pt[1] == pt[2]) { auto x = gtol(q[0], q[3], pt[0]); auto y = gtol(q[1], q[2], pt[1]); t += beta * (x.first * y.second + y.first * x.second + x.second * y.second); }
            std::string fk = (pt[0] + pt[1] == -1) ? "bosonic-zero" : ((pt[0] == pt[2] && pt[1] == pt[2]) ? "n1=n2=n3" : (pt[0] == pt[2] ? "n1=n3" : (pt[1] == pt[2] ? "n2=n3" : "generic")));
            c.cmp("vertex-vanishes", gt.straddle ? std::string("C12:vertex-vanishes:merge-vs-resonance-window") : "C12:vertex-vanishes:" + fk, v, cd(0, 0), t, [&] { return qs + ".value(" + std::to_string(pt[0]) + "," + std::to_string(pt[1]) + "," + std::to_string(pt[2]) + ") class " + hclass + " beta=" + fmt(beta) + " chi scale " + fmt(S); });
        }
    }
    c.count("quadruples", (long)quads.size()); c.count("resonant_terms", nres); c.count("nonvanishing_chi", nonzero_chi);
    c.features.set("near_coincident_poles", gt.near).set("merge_vs_resonance_window", gt.straddle);
    c.nontrivial = nonzero_chi > 0 && nres > 0;
}

VH_DRIVER(wick, wick_ncases, wick_run);
