// C18 - index bookkeeping is a bijection; physics is invariant under relabelling / re-ordering of the indices.
//
// Two kinds of cases (chosen by the case number only, see is_physics_case):
//  (A) bijection cases: a random lattice (hostile labels, heterogeneous orbital / spin counts) is classified in BOTH
//      ordering modes; every probe of one (lattice, mode) runs in a forked child (a defective prepare() may leave null
//      slots and crash), the child returns plain observations, the monitors are evaluated in the parent against the
//      INPUT (the list of sites), never against the library.
//  (B) invariance cases: one generated physical model is built (a) in default order, (b) in spin-major order (only if
//      all sites have the same spin count), (c) with injectively renamed sites.  Spectrum, occupancies and G_ij(i w_n) of
//      (b), (c) must equal those of (a) up to the induced permutation of the indices (metamorphic relation).
#include "common/vh.hpp"
#include "common/pipeline.hpp"
#include "common/oracle.hpp"
#include "common/isolate.hpp"
#include <algorithm>
#include <fcntl.h>

using namespace vh;

static long index_ncases(const std::string& tier) { return tier == "thorough" ? 64500 : 660; }
// quick: every 11th case (60 of 660); thorough: 3 of every 43 cases (4500 of 64500)
static bool is_physics_case(const std::string& tier, long k) {
    if (tier == "thorough") { long r = k % 43; return r == 13 || r == 27 || r == 41; }
    return k % 11 == 10;
}

static std::vector<std::string> hostile_labels() {
    return {"", " ", "  ", "0", "1", "2", "10", "9", "01", "A", "B", "a", "b", "AA", "AB", "Aa", "Z", "z", "zz", "zy", "x y", "x  y", "x_y",
            "site_with_a_rather_long_label_0001", "site_with_a_rather_long_label_0002", "site_with_a_rather_long_label_0010",
            "Site", "site", "\t", "A ", " A", "-1", "#", "~", "(A,0,0)"};
}

// ------------------------------------------------------------------------------------------------ (A) child probe
// Output: integers only (sites are referred to by their position in the input list, -1 = label not among the inputs).
//   S size | I i ok site orb spin back | T site orb spin idx3 idxInfo bok bsite borb bspin | C n b0..b(n-1) | X thrown(size) thrown(size+7) | END
// level 0: construct + prepare only; level 1: + all in-range look-ups; level 2: + out-of-range getInfo (reads past the table if unguarded)
// reprepare: prepare() is first called with the other ordering and then with the wanted one on the same object ("switching the ordering mode")
static std::string index_probe(const std::vector<SiteSpec>& sites, bool spin_major, int level, bool reprepare = false) {
    // we are in the forked child: a fatal signal must kill it silently (MPI / sanitizer handlers would print a backtrace)
    signal(SIGSEGV, SIG_DFL); signal(SIGBUS, SIG_DFL); signal(SIGABRT, SIG_DFL); signal(SIGFPE, SIG_DFL); signal(SIGILL, SIG_DFL);
    { int dn = open("/dev/null", O_WRONLY); if (dn >= 0) { dup2(dn, 2); close(dn); } }
    Pomerol::Lattice L;
    for (auto& s : sites) L.addSite(new Pomerol::Lattice::Site(s.label, (unsigned short)s.norb, (unsigned short)s.nspin));
    Pomerol::IndexClassification IC(L.getSiteMap());
    if (reprepare) IC.prepare(!spin_major);
    IC.prepare(spin_major);
    if (level == 0) return "END\n";
    auto site_of = [&](const std::string& lab) { for (size_t k = 0; k < sites.size(); ++k) if (sites[k].label == lab) return (int)k; return -1; };
    std::ostringstream os;
    const Pomerol::ParticleIndex size = IC.getIndexSize();
    os << "S " << size << "\n";
    const Pomerol::ParticleIndex lim = std::min<Pomerol::ParticleIndex>(size, 256);
    for (Pomerol::ParticleIndex i = 0; i < lim; ++i) {
        try {
            Pomerol::IndexClassification::IndexInfo info = IC.getInfo(i);
            Pomerol::ParticleIndex back = IC.getIndex(info);
            os << "I " << i << " 1 " << site_of(info.SiteLabel) << " " << info.Orbital << " " << info.Spin << " " << back << "\n";
        } catch (...) { os << "I " << i << " 0 -1 0 0 0\n"; }
    }
    for (size_t k = 0; k < sites.size(); ++k) for (int o = 0; o < sites[k].norb; ++o) for (int z = 0; z < sites[k].nspin; ++z) {
        Pomerol::ParticleIndex i3 = IC.getIndex(sites[k].label, (unsigned short)o, (unsigned short)z);
        Pomerol::ParticleIndex iI = IC.getIndex(Pomerol::IndexClassification::IndexInfo(sites[k].label, (unsigned short)o, (unsigned short)z));
        os << "T " << k << " " << o << " " << z << " " << i3 << " " << iI << " ";
        try {
            Pomerol::IndexClassification::IndexInfo info = IC.getInfo(i3);
            os << "1 " << site_of(info.SiteLabel) << " " << info.Orbital << " " << info.Spin << "\n";
        } catch (...) { os << "0 -1 0 0\n"; }
    }
    os << "C " << (lim + 3);
    for (Pomerol::ParticleIndex i = 0; i < lim + 3; ++i) os << " " << (IC.checkIndex(i) ? 1 : 0);
    os << "\n";
    if (level >= 2) {
        int t0 = 0, t1 = 0;
        try { IC.getInfo(size); } catch (const Pomerol::IndexClassification::exWrongIndex&) { t0 = 1; } catch (...) { t0 = 2; }
        try { IC.getInfo(size + 7); } catch (const Pomerol::IndexClassification::exWrongIndex&) { t1 = 1; } catch (...) { t1 = 2; }
        os << "X " << t0 << " " << t1 << "\n";
    }
    os << "END\n";
    return os.str();
}

struct ProbeObs {
    bool complete = false; long size = -1;
    struct I { long i, ok, site, orb, spin, back; }; std::vector<I> infos;
    struct T { long site, orb, spin, i3, iI, bok, bsite, borb, bspin; }; std::vector<T> triples;
    long x0 = -1, x1 = -1; std::vector<long> chk;
};
static ProbeObs parse_probe(const std::string& s) {
    ProbeObs o; std::istringstream is(s); std::string tag;
    while (is >> tag) {
        if (tag == "S") is >> o.size;
        else if (tag == "I") { ProbeObs::I x; is >> x.i >> x.ok >> x.site >> x.orb >> x.spin >> x.back; o.infos.push_back(x); }
        else if (tag == "T") { ProbeObs::T x; is >> x.site >> x.orb >> x.spin >> x.i3 >> x.iI >> x.bok >> x.bsite >> x.borb >> x.bspin; o.triples.push_back(x); }
        else if (tag == "X") is >> o.x0 >> o.x1;
        else if (tag == "C") { long n = 0; is >> n; for (long q = 0; q < n; ++q) { long b = -1; is >> b; o.chk.push_back(b); } }
        else if (tag == "END") { o.complete = !is.fail(); break; }
        else break;
        if (is.fail()) break;
    }
    return o;
}

static std::string sites_text(const std::vector<SiteSpec>& sites) {
    std::string t = "sites(in insertion order)=";
    for (auto& s : sites) t += "['" + s.label + "' orb=" + std::to_string(s.norb) + " spin=" + std::to_string(s.nspin) + "]";
    return t;
}

static void bijection_case(Ctx& c) {
    Rng& r = c.rng;
    // ---- lattice
    std::vector<SiteSpec> sites;
    const int ns = r.coin(0.1) ? 1 : (int)r.range(2, 4);
    const bool want_hetero = ns >= 2 && r.coin(0.67);          // ~60% of all lattices are heterogeneous
    std::vector<std::string> pool = hostile_labels();
    for (int attempt = 0; attempt < 100; ++attempt) {
        sites.clear(); int modes = 0;
        int co = (int)r.range(1, 3), cs = (int)r.range(1, 3);
        for (int k = 0; k < ns; ++k) {
            SiteSpec s; s.norb = want_hetero ? (int)r.range(1, 3) : co; s.nspin = want_hetero ? (int)r.range(1, 3) : cs;
            modes += s.norb * s.nspin; sites.push_back(s);
        }
        bool het = false; for (auto& s : sites) het = het || s.norb != sites[0].norb || s.nspin != sites[0].nspin;
        if (modes <= 12 && het == want_hetero) break;
        if (attempt == 99) for (auto& s : sites) { s.norb = 1; s.nspin = (s.nspin > 2 ? 2 : s.nspin); }
    }
    for (auto& s : sites) { size_t li = (size_t)r.range(0, (long)pool.size() - 1); s.label = pool[li]; pool.erase(pool.begin() + (long)li); }
    long expect = 0; bool het_orb = false, het_spin = false, orb2 = false;
    for (auto& s : sites) { expect += s.norb * s.nspin; het_orb = het_orb || s.norb != sites[0].norb; het_spin = het_spin || s.nspin != sites[0].nspin; orb2 = orb2 || s.norb >= 2; }
    // input class for crash keys: does a site with fewer spins precede (in std::string order = order of Lattice::SiteMap) one with more?
    std::vector<SiteSpec> sorted = sites;
    std::sort(sorted.begin(), sorted.end(), [](const SiteSpec& a, const SiteSpec& b) { return a.label < b.label; });
    bool fewer_first = false;
    for (size_t a = 0; a < sorted.size(); ++a) for (size_t b = a + 1; b < sorted.size(); ++b) if (sorted[a].nspin < sorted[b].nspin) fewer_first = true;
    const std::string spinclass = !het_spin ? "uniform-spins" : (fewer_first ? "hetero-spins:fewer-first" : "hetero-spins:more-first");
    bool insertion_sorted = true; for (size_t k = 0; k + 1 < sites.size(); ++k) insertion_sorted = insertion_sorted && sites[k].label < sites[k + 1].label;

    J ss = J::arr(); for (auto& s : sites) ss.push(J::obj().set("label", s.label).set("orb", s.norb).set("spin", s.nspin));
    c.model = J::obj().set("kind", "bijection").set("sites", ss).set("nmodes", expect);
    c.canon = "A|" + ss.str();
    c.features.set("kind", "bijection").set("nsites", ns).set("nmodes", expect).set("hetero_orb", het_orb).set("hetero_spin", het_spin)
        .set("spinclass", spinclass).set("insertion_sorted", insertion_sorted);
    c.nontrivial = ns >= 2 && (het_orb || het_spin || orb2);
    const std::string st = sites_text(sites);

    for (int sm = 0; sm < 4; ++sm) {
        const bool spin_major = (sm & 1) == 1, reprepare = sm >= 2;
        const std::string mk = std::string(spin_major ? "spin-major" : "default") + (reprepare ? ":after-reprepare" : "");
        const std::string call = "IndexClassification(sites)" + std::string(reprepare ? (spin_major ? ".prepare(false)" : ".prepare(true)") : "") + ".prepare(" + std::string(spin_major ? "true" : "false") + "); " + st;
        c.count("lattices:" + mk + ":" + ((het_orb || het_spin) ? "hetero" : "uniform"));
        IsoResult res = run_isolated([&] { return index_probe(sites, spin_major, 2, reprepare); }, 20);
        auto dead = [](const IsoResult& x) { return !(x.exited && x.exit_code == 0); };
        bool have_oob = true;
        if (dead(res)) {
            // attribute the death to the first stage that reproduces it alone
            c.count("child_died");
            IsoResult r0 = run_isolated([&] { return index_probe(sites, spin_major, 0, reprepare); }, 20);
            IsoResult r1; if (!dead(r0)) r1 = run_isolated([&] { return index_probe(sites, spin_major, 1, reprepare); }, 20);
            const IsoResult& blame = dead(r0) ? r0 : (dead(r1) ? r1 : res);
            std::string stage = dead(r0) ? "prepare" : (dead(r1) ? "lookup" : "getInfo-out-of-range");
            std::string how = blame.timed_out ? "timeout" : "crash";
            std::string what = blame.exited ? ("exit code " + std::to_string(blame.exit_code)) : sig_name(blame.sig);
            // the input class matters for the table construction / in-range look-ups only
            std::string key = "C18:" + how + ":" + stage + ":" + mk + (stage == "getInfo-out-of-range" ? "" : ":" + spinclass);
            c.check("no-crash", key, false, [&] { return "child died with " + what + " during " + stage + (stage == "getInfo-out-of-range" ? " (getInfo(getIndexSize()) or getInfo(getIndexSize()+7))" : "") + "; " + call; });
            if (stage != "getInfo-out-of-range") continue;
            res = r1; have_oob = false;      // in-range observations are still valid
        }
        if (have_oob) c.check("no-crash", "C18:crash:any:" + mk + ":" + spinclass, true, [] { return std::string(); });
        if (res.out.compare(0, 4, "EXC:") == 0) {
            c.check("no-exception", "C18:exception:prepare-or-getIndex:" + mk, false, [&] { return "unexpected exception '" + res.out.substr(4) + "'; " + call; });
            continue;
        }
        ProbeObs o = parse_probe(res.out);
        if (!o.complete) { c.violation("harness", "HARNESS:index:probe-parse", "cannot parse child output: " + res.out.substr(0, 200)); continue; }
        const long size = o.size;

        // 1. size
        c.check("size", "C18:size:" + mk, size == expect, [&] { return "getIndexSize()=" + std::to_string(size) + " expected sum orb*spin=" + std::to_string(expect) + "; " + call; });
        // 2. getInfo(i) for all i < size
        c.check("getInfo-count", "C18:getInfo-valid:" + mk, (long)o.infos.size() == std::min(size, 256L), [&] { return "probe enumerated " + std::to_string(o.infos.size()) + " indices; " + call; });
        std::set<std::vector<long>> seen_info;
        for (auto& x : o.infos) {
            bool valid = x.ok == 1 && x.site >= 0 && x.site < ns && x.orb >= 0 && x.orb < sites[(size_t)x.site].norb && x.spin >= 0 && x.spin < sites[(size_t)x.site].nspin;
            c.check("getInfo-valid", "C18:getInfo-valid:" + mk, valid, [&] {
                return "getInfo(" + std::to_string(x.i) + ") " + (x.ok == 1 ? "= (site#" + std::to_string(x.site) + "," + std::to_string(x.orb) + "," + std::to_string(x.spin) + ") is not a mode of the lattice" : "threw") + "; " + call; });
            c.check("getIndex-of-getInfo", "C18:getIndex-of-getInfo:" + mk, x.ok == 1 && x.back == x.i, [&] { return "getIndex(getInfo(" + std::to_string(x.i) + "))=" + std::to_string(x.back) + "; " + call; });
            if (valid) c.check("getInfo-injective", "C18:getInfo-injective:" + mk, seen_info.insert({x.site, x.orb, x.spin}).second, [&] {
                return "getInfo(" + std::to_string(x.i) + ") repeats the mode (site#" + std::to_string(x.site) + "," + std::to_string(x.orb) + "," + std::to_string(x.spin) + ") of a smaller index; " + call; });
        }
        // 3. images of all valid triples
        c.check("triples-enumerated", "HARNESS:index:triples", (long)o.triples.size() == expect, [&] { return std::string("probe did not enumerate all triples"); });
        std::map<long, size_t> image;   // index -> first triple
        std::vector<char> hit((size_t)std::max(0L, std::min(size, 4096L)), 0);
        for (size_t q = 0; q < o.triples.size(); ++q) {
            auto& t = o.triples[q];
            std::string tt = "(site#" + std::to_string(t.site) + " '" + (t.site >= 0 && t.site < ns ? sites[(size_t)t.site].label : "?") + "'," + std::to_string(t.orb) + "," + std::to_string(t.spin) + ")";
            c.check("getIndex-range", "C18:getIndex-range:" + mk, t.i3 >= 0 && t.i3 < size, [&] { return "getIndex" + tt + "=" + std::to_string(t.i3) + " not below getIndexSize()=" + std::to_string(size) + "; " + call; });
            c.check("getIndex-overloads-agree", "C18:getIndex-overloads-agree:" + mk, t.i3 == t.iI, [&] { return "getIndex(label,orb,spin)=" + std::to_string(t.i3) + " but getIndex(IndexInfo)=" + std::to_string(t.iI) + " for " + tt + "; " + call; });
            auto ins = image.insert({t.i3, q});
            c.check("getIndex-injective", "C18:getIndex-injective:" + mk, ins.second, [&] {
                auto& u = o.triples[ins.first->second];
                return "getIndex" + tt + " = getIndex(site#" + std::to_string(u.site) + "," + std::to_string(u.orb) + "," + std::to_string(u.spin) + ") = " + std::to_string(t.i3) + "; " + call; });
            if (t.i3 >= 0 && t.i3 < (long)hit.size()) hit[(size_t)t.i3] = 1;
            c.check("getInfo-of-getIndex", "C18:getInfo-of-getIndex:" + mk, t.bok == 1 && t.bsite == t.site && t.borb == t.orb && t.bspin == t.spin, [&] {
                return "getInfo(getIndex" + tt + "=" + std::to_string(t.i3) + ") " + (t.bok == 1 ? "= (site#" + std::to_string(t.bsite) + "," + std::to_string(t.borb) + "," + std::to_string(t.bspin) + ")" : "threw") + "; " + call; });
        }
        c.count("triples_checked", (long)o.triples.size());
        long missing = -1; for (size_t i = 0; i < hit.size(); ++i) if (!hit[i]) { missing = (long)i; break; }
        c.check("getIndex-surjective", "C18:getIndex-surjective:" + mk, missing < 0, [&] { return "no valid (site,orbital,spin) is mapped to index " + std::to_string(missing) + " < getIndexSize()=" + std::to_string(size) + "; " + call; });
        // 4. out-of-range getInfo throws
        if (have_oob) c.check("getInfo-out-of-range-throws", "C18:getInfo-out-of-range-throws:" + mk, o.x0 == 1 && o.x1 == 1, [&] {
            return "getInfo(size): " + std::string(o.x0 == 1 ? "exWrongIndex" : o.x0 == 2 ? "other exception" : "no exception") + ", getInfo(size+7): " + (o.x1 == 1 ? "exWrongIndex" : o.x1 == 2 ? "other exception" : "no exception") + "; " + call; });
        // 5. checkIndex
        for (size_t i = 0; i < o.chk.size(); ++i)
            c.check("checkIndex", "C18:checkIndex:" + mk, o.chk[i] == ((long)i < size ? 1 : 0), [&] { return "checkIndex(" + std::to_string(i) + ")=" + std::to_string(o.chk[i]) + " with getIndexSize()=" + std::to_string(size) + "; " + call; });
    }
}

// ------------------------------------------------------------------------------------------------ (B) invariance
namespace {
struct Variant {
    std::string name; ModelSpec spec;
    std::unique_ptr<Pipeline> p;
    std::vector<double> E, occ;
    Pipeline::LibBasis lb; RVec w; std::vector<CMat> cL;
    std::unique_ptr<Pomerol::GFContainer> gf;    // destroyed before p
    std::vector<int> pi;                          // base index -> index in this variant
    std::map<std::string, std::string> rename;    // base label -> label in this variant
};
}

static void build_variant(Variant& v) {
    v.p.reset(new Pipeline);
    v.p->build_all(v.spec, PM_DEFAULT);
    Pomerol::RealVectorType ev = v.p->H->getEigenValues();
    for (long n = 0; n < ev.size(); ++n) v.E.push_back(ev(n));
    std::sort(v.E.begin(), v.E.end());
    for (int i = 0; i < v.p->N; ++i) v.occ.push_back(v.p->DM->getAverageOccupancy((Pomerol::ParticleIndex)i));
    // data for the derived tolerance: c_i in this variant's own eigenbasis
    v.lb = v.p->lib_basis(); v.w = v.p->lib_weights();
    for (int i = 0; i < v.p->N; ++i) { CMat ci = jw_c(v.p->N, i); v.cL.push_back(v.lb.U.adjoint() * ci * v.lb.U); }
}

static void physics_case(Ctx& c) {
    // gen_model consumes a flavour-dependent number of draws (complex amplitudes); everything that is not the model itself
    // (renaming, sampled index pairs) comes from a second stream seeded from c.rng BEFORE the model is generated
    Rng r(c.rng.next());
    Rng& rm = c.rng;
    GenOpts g; g.max_modes = rm.coin(c.thorough() ? 0.5 : 0.25) ? 6 : 5; g.min_modes = rm.coin(0.85) ? 3 : 1; g.hetero = true;   // mostly >= 2 sites g.allow_unbalanced = false; g.allow_spin_major = false;
    ModelSpec m = gen_model(rm, g);
    m.spin_major = false;
    const int ns = (int)m.sites.size();
    bool same_spins = true; for (auto& s : m.sites) same_spins = same_spins && s.nspin == m.sites[0].nspin;

    // ---- random injective renaming
    std::vector<std::string> newlab((size_t)ns);
    int rmode = (int)r.range(0, 9);
    std::string rname;
    if (rmode < 4 && ns >= 2) {                         // permute the existing labels among the sites (non-identity)
        rname = "permute-existing";
        std::vector<int> perm((size_t)ns); for (int k = 0; k < ns; ++k) perm[(size_t)k] = k;
        for (int tries = 0; tries < 20; ++tries) {
            for (int k = ns - 1; k > 0; --k) std::swap(perm[(size_t)k], perm[(size_t)r.range(0, k)]);
            bool id = true; for (int k = 0; k < ns; ++k) id = id && perm[(size_t)k] == k;
            if (!id) break;
        }
        for (int k = 0; k < ns; ++k) newlab[(size_t)k] = m.sites[(size_t)perm[(size_t)k]].label;
    } else {
        std::vector<std::string> pool = hostile_labels();
        for (auto& l : label_pool()) if (std::find(pool.begin(), pool.end(), l) == pool.end()) pool.push_back(l);
        std::vector<std::string> fresh;
        for (int k = 0; k < ns; ++k) { size_t li = (size_t)r.range(0, (long)pool.size() - 1); fresh.push_back(pool[li]); pool.erase(pool.begin() + (long)li); }
        if (rmode < 7) {                                // fresh labels whose sort order is the reverse of the old one
            rname = "reverse-order";
            std::vector<int> rank((size_t)ns); for (int k = 0; k < ns; ++k) rank[(size_t)k] = k;
            std::sort(rank.begin(), rank.end(), [&](int a, int b) { return m.sites[(size_t)a].label < m.sites[(size_t)b].label; });
            std::sort(fresh.begin(), fresh.end());
            for (int q = 0; q < ns; ++q) newlab[(size_t)rank[(size_t)q]] = fresh[(size_t)(ns - 1 - q)];
        } else { rname = "random-fresh"; newlab = fresh; }
    }

    std::vector<std::unique_ptr<Variant>> V;
    { std::unique_ptr<Variant> a(new Variant); a->name = "default"; a->spec = m; for (auto& s : m.sites) a->rename[s.label] = s.label; V.push_back(std::move(a)); }
    if (same_spins) { std::unique_ptr<Variant> b(new Variant); b->name = "spin-major"; b->spec = m; b->spec.spin_major = true; for (auto& s : m.sites) b->rename[s.label] = s.label; V.push_back(std::move(b)); }
    { std::unique_ptr<Variant> d(new Variant); d->name = "renamed"; d->spec = m;
      for (int k = 0; k < ns; ++k) { d->spec.sites[(size_t)k].label = newlab[(size_t)k]; d->rename[m.sites[(size_t)k].label] = newlab[(size_t)k]; }
      V.push_back(std::move(d)); }

    J ren = J::arr(); for (int k = 0; k < ns; ++k) ren.push(J::arr().push(m.sites[(size_t)k].label).push(newlab[(size_t)k]));
    c.model = m.describe(); c.model.set("kind", "invariance").set("renaming", ren).set("renaming_mode", rname).set("spin_major_variant", same_spins);
    c.canon = "B|" + m.canon() + "|" + ren.str();

    // the relation is only defined for Hermitian H (the library reads one triangle of a non-Hermitian matrix, and which one
    // depends on the ordering); generated models are Hermitian except for rare self-hopping combinations -> skip those
    Variant& A = *V[0];
    {
        Pipeline probe; probe.build_lattice(m);
        CMat Href = probe.ref_H();
        double hd = (Href - Href.adjoint()).cwiseAbs().maxCoeff(), hn = Href.cwiseAbs().maxCoeff();
        if (hd > 1e-12 * (1 + hn)) { c.skipped = true; c.extra.set("skip", "generated model not Hermitian"); return; }
    }
    build_variant(A);
    const int N = A.p->N; const long dim = A.p->dim; const double beta = m.beta;
    double emax = 0; for (double e : A.E) emax = std::max(emax, std::abs(e));
    c.features.set("kind", "invariance").set("N", N).set("nsites", ns).set("pclass", m.pclass).set("renaming_mode", rname).set("variants", (long)V.size() - 1).set("blocks", A.p->nblocks());

    // index pairs (base numbering)
    std::vector<std::pair<int, int>> pairs;
    if (N <= 4) { for (int i = 0; i < N; ++i) for (int j = 0; j < N; ++j) pairs.push_back({i, j}); }
    else {
        for (int i = 0; i < N; ++i) pairs.push_back({i, i});
        std::set<std::pair<int, int>> seen;
        for (int t = 0; t < 14; ++t) { int i = (int)r.range(0, N - 1), j = (int)r.range(0, N - 1); if (i != j && seen.insert({i, j}).second) pairs.push_back({i, j}); }
    }
    const std::vector<long> ns_mats = {0, 1, -1, 5};
    {
        std::set<Pomerol::IndexCombination2> want;
        for (auto& ij : pairs) want.insert(Pomerol::IndexCombination2((Pomerol::ParticleIndex)ij.first, (Pomerol::ParticleIndex)ij.second));
        A.gf.reset(new Pomerol::GFContainer(*A.p->IC, *A.p->S, *A.p->H, *A.p->DM, *A.p->Ops));
        A.gf->prepareAll(want); A.gf->computeAll();
    }
    // tolerance data of the base variant per pair
    std::vector<TolG> tolA(pairs.size());
    for (size_t q = 0; q < pairs.size(); ++q) tolA[q].prepare(lehmann_terms(A.cL[(size_t)pairs[q].first], A.cL[(size_t)pairs[q].second].adjoint(), A.lb.E, A.w));

    long nonid = 0, nonzero_offdiag = 0;
    for (size_t vi = 1; vi < V.size(); ++vi) {
        Variant& B = *V[vi];
        const std::string vk = B.name;
        build_variant(B);
        c.count("variants_compared");
        if (!c.check("index-size", "C18:index-size:" + vk, B.p->N == N, [&] { return "getIndexSize()=" + std::to_string(B.p->N) + " in variant, " + std::to_string(N) + " in default order"; })) continue;
        // induced permutation, read off the two classifications
        B.pi.assign((size_t)N, -1); bool bij = true; std::vector<char> used((size_t)N, 0); std::string pis;
        for (int i = 0; i < N; ++i) {
            Pomerol::IndexClassification::IndexInfo info = A.p->IC->getInfo((Pomerol::ParticleIndex)i);
            auto it = B.rename.find(info.SiteLabel);
            long img = it == B.rename.end() ? -1 : (long)B.p->IC->getIndex(it->second, info.Orbital, info.Spin);
            pis += (i ? "," : "") + std::to_string(img);
            if (img < 0 || img >= N || used[(size_t)img]) { bij = false; continue; }
            used[(size_t)img] = 1; B.pi[(size_t)i] = (int)img;
        }
        c.extra.set("pi:" + vk, pis);
        if (!c.check("perm-bijection", "C18:perm-bijection:" + vk, bij, [&] { return "induced index map default->" + vk + " is not a permutation of 0.." + std::to_string(N - 1) + ": [" + pis + "]"; })) continue;
        bool id = true; for (int i = 0; i < N; ++i) id = id && B.pi[(size_t)i] == i;
        if (!id) { ++nonid; c.count("nonidentity_perms"); c.count("nonidentity_perms:" + vk); }

        // spectrum as a sorted multiset
        if (c.check("spectrum-size", "C18:spectrum-size:" + vk, (long)B.E.size() == dim && (long)A.E.size() == dim, [&] { return std::to_string(B.E.size()) + " vs " + std::to_string(A.E.size()) + " eigenvalues, dim " + std::to_string(dim); }))
            for (long n = 0; n < dim; ++n)
                c.cmp("spectrum", "C18:spectrum:" + vk, B.E[(size_t)n], A.E[(size_t)n], 1e-10 * (1 + emax), [&] { return "sorted eigenvalue #" + std::to_string(n) + " variant " + vk + " vs default order, pi=[" + pis + "]"; });
        // occupancies
        for (int i = 0; i < N; ++i)
            c.cmp("occupancy", "C18:occupancy:" + vk, B.occ[(size_t)B.pi[(size_t)i]], A.occ[(size_t)i], 1e-10, [&] { return "<n_" + std::to_string(B.pi[(size_t)i]) + "> in variant " + vk + " vs <n_" + std::to_string(i) + "> in default order, pi=[" + pis + "] beta=" + fmt(beta); });
        // Green's functions
        std::set<Pomerol::IndexCombination2> want;
        for (auto& ij : pairs) want.insert(Pomerol::IndexCombination2((Pomerol::ParticleIndex)B.pi[(size_t)ij.first], (Pomerol::ParticleIndex)B.pi[(size_t)ij.second]));
        B.gf.reset(new Pomerol::GFContainer(*B.p->IC, *B.p->S, *B.p->H, *B.p->DM, *B.p->Ops));
        B.gf->prepareAll(want); B.gf->computeAll();
        for (size_t q = 0; q < pairs.size(); ++q) {
            int i = pairs[q].first, j = pairs[q].second, pi_i = B.pi[(size_t)i], pi_j = B.pi[(size_t)j];
            // Tolerance.  Both values approximate the same exact G (the exact G is covariant under the permutation), each
            // with the reductions the library documents: Lehmann terms with |residue| <= 1e-8 are dropped and poles closer
            // than 1e-8 are merged.  WHICH terms are dropped / merged depends on the eigenbasis chosen inside degenerate
            // subspaces and hence on the ordering, so the two errors do not cancel.  Each error is bounded exactly as in
            // C01 (TolG: sum of dropped |R|/|z-P| + pole-shift + like-pole allowances), evaluated in the respective
            // variant's own eigenbasis; the monitor allows their sum and nothing more.  (A blanket bound would be
            // ~ #terms * 1e-8 * beta/pi, i.e. 1e-7..1e-5; the derived one is usually ~1e-11.)
            TolG tolB; tolB.prepare(lehmann_terms(B.cL[(size_t)pi_i], B.cL[(size_t)pi_j].adjoint(), B.lb.E, B.w));
            Pomerol::GreensFunction& GA = (*A.gf)((Pomerol::ParticleIndex)i, (Pomerol::ParticleIndex)j);
            Pomerol::GreensFunction& GB = (*B.gf)((Pomerol::ParticleIndex)pi_i, (Pomerol::ParticleIndex)pi_j);
            bool nz = false;
            for (long n : ns_mats) {
                cd z(0, (2 * n + 1) * M_PI / beta);
                cd ga = GA(n), gb = GB(n);
                if (std::abs(ga) > 1e-9) nz = true;
                double tol = tolA[q].at(z, ga) + tolB.at(z, gb);
                c.cmp("gf", "C18:gf:" + vk + ":" + (i == j ? "diag" : "offdiag"), gb, ga, tol, [&] {
                    return "G_{" + std::to_string(pi_i) + "," + std::to_string(pi_j) + "}(n=" + std::to_string(n) + ") in variant " + vk + " vs G_{" + std::to_string(i) + "," + std::to_string(j) + "} in default order, pi=[" + pis + "] beta=" + fmt(beta); });
            }
            if (i != j && nz && vi == 1) ++nonzero_offdiag;
        }
        c.count("gf_pairs_compared", (long)pairs.size());
    }
    c.features.set("nonidentity", nonid).set("nonzero_offdiag", nonzero_offdiag);
    c.nontrivial = nonid >= 1;
}

static void index_run(Ctx& c) {
    if (is_physics_case(c.tier, c.k)) physics_case(c); else bijection_case(c);
}

VH_DRIVER(index, index_ncases, index_run);
