// C04 - lattice terms and presets produce exactly the documented Hamiltonian.
//
// ORACLE: an independent transcription of the doc comments of include/pomerol/LatticePresets.h into RefTerms (jw.hpp);
// a raw user term is "Value * product of its factors in the given order" with canonical anticommutation relations.
// Mode numbers come from IndexClassification::getIndex (its correctness is another property's subject).
// OBSERVED: (a) the monomials of IndexHamiltonian after prepare() mapped to a dense matrix   -> monitor "indexhamiltonian"
//           (b) HamiltonianPart::getMatrix() after Hamiltonian::prepare(), symmetries ignored -> monitor "blockmatrix"
// Keys: C04:<monitor>:<kind>:<api entry>:<overload/variant>
#include "common/vh.hpp"
#include "common/jw.hpp"
#include "common/model.hpp"
#include "common/pipeline.hpp"
#include <typeinfo>

using namespace vh;

namespace {

typedef std::vector<RefTerm> Terms;
typedef Pomerol::Lattice::Term LTerm;
typedef Pomerol::Lattice::Term::Presets TP;
typedef Pomerol::LatticePresets LP;
typedef unsigned short us;

const int DN = 0, UP = 1;   // documented convention: enum spin {down, up}

// ------------------------------------------------------------------------------------------------ schedule
struct Entry { std::string kind, name, var; };

const std::vector<Entry>& schedule() {
    static std::vector<Entry> s;
    if (!s.empty()) return s;
    auto add = [&](const char* k, const char* n, const char* v, int w = 1) { for (int i = 0; i < w; ++i) s.push_back(Entry{k, n, v}); };
    // (1) every preset alone
    add("preset", "addCoulombS", "spins1"); add("preset", "addCoulombS", "spins2"); add("preset", "addCoulombS", "spins3");
    add("preset", "addCoulombP4", "spins2", 2); add("preset", "addCoulombP4", "spins3");
    add("preset", "addCoulombP3", "spins2", 2); add("preset", "addCoulombP3", "spins3");
    add("preset", "addCoulombP", "orb1-or-spin1");
    add("preset", "addMagnetization", "spins2");
    add("preset", "addLevel", "any");
    add("preset", "addSzSz", "two-site"); add("preset", "addSzSz", "same-site");
    add("preset", "addSS", "two-site"); add("preset", "addSS", "same-site");
    add("preset", "addHopping7", "two-site"); add("preset", "addHopping7", "same-site"); add("preset", "addHopping7", "same-mode");
    add("preset", "addHopping6", "two-site"); add("preset", "addHopping6", "same-site"); add("preset", "addHopping6", "same-mode");
    add("preset", "addHopping5", "two-site"); add("preset", "addHopping5", "same-site"); add("preset", "addHopping5", "same-mode");
    add("preset", "addHopping4", "two-site"); add("preset", "addHopping4", "same-site");
    // (2) every Term factory alone through Lattice::addTerm
    add("term", "Hopping7", "two-site"); add("term", "Hopping7", "same-site");
    add("term", "Hopping5", "two-site"); add("term", "Hopping5", "same-site");
    add("term", "Level", "any");
    add("term", "NupNdown7", "two-site"); add("term", "NupNdown7", "same-site"); add("term", "NupNdown7", "identical-mode");
    add("term", "NupNdown6", "distinct"); add("term", "NupNdown6", "identical-mode");
    add("term", "NupNdown4", "updown"); add("term", "NupNdown3", "default-spins");
    add("term", "NupNdown5", "distinct"); add("term", "NupNdown5", "identical-mode");
    add("term", "Spinflip", "default-spins"); add("term", "Spinflip", "explicit-spins");
    add("term", "PairHopping", "default-spins"); add("term", "PairHopping", "explicit-spins");
    add("term", "SplusSminus", "two-site"); add("term", "SplusSminus", "same-site");
    add("term", "SminusSplus", "two-site"); add("term", "SminusSplus", "same-site");
    // (3) raw user terms alone
    static const char* ord[] = {"2", "4", "6"};
    for (int o = 0; o < 3; ++o) {
        add("user-term", ord[o], "plain", 2); add("user-term", ord[o], "repeated-factor", 2);
        add("user-term", ord[o], "non-conserving", 2); add("user-term", ord[o], "cancelling", 2);
        if (o > 0) add("user-term", ord[o], "partial-product-vanishes", 2);
    }
    // (4) sums and SU(2) commutators
    add("sum", "sum", "", 14);
    add("su2", "kanamori", "", 2); add("su2", "SS", "two-site", 2); add("su2", "SS", "same-site", 2);
    return s;
}

// ------------------------------------------------------------------------------------------------ lattices
struct Shape { int norb, nspin; };

Shape rshape(Rng& r, int budget, int olo, int ohi, int slo, int shi) {
    if (olo * slo > budget) { Shape s = {olo, slo}; return s; }   // cannot happen for the budgets used below
    for (;;) { Shape s = {(int)r.range(olo, ohi), (int)r.range(slo, shi)}; if (s.norb * s.nspin <= budget) return s; }
}

std::vector<SiteSpec> make_sites(Rng& r, int maxN, const std::vector<Shape>& forced, bool all2, int min_modes = 1) {
    std::vector<std::string> pool = label_pool();
    auto take = [&]() { size_t i = (size_t)r.range(0, (long)pool.size() - 1); std::string l = pool[i]; pool.erase(pool.begin() + (long)i); return l; };
    std::vector<SiteSpec> out; int modes = 0;
    for (auto& f : forced) { SiteSpec s; s.label = take(); s.norb = f.norb; s.nspin = f.nspin; out.push_back(s); modes += f.norb * f.nspin; }
    int extra = (int)r.range(0, 3 - (long)out.size());
    if (out.empty() && extra == 0) extra = 1;
    for (int e = 0; e < extra || (modes < min_modes && (int)out.size() < 3); ++e) {
        Shape sh; sh.norb = (int)r.range(1, 3); sh.nspin = all2 ? 2 : (int)r.range(1, 3);
        if (modes + sh.norb * sh.nspin > maxN) { sh.norb = 1; if (modes + sh.nspin > maxN) { if (all2 || modes + 1 > maxN) break; sh.nspin = 1; } }
        SiteSpec s; s.label = take(); s.norb = sh.norb; s.nspin = sh.nspin; out.push_back(s); modes += sh.norb * sh.nspin;
        if ((int)out.size() >= 3) break;
    }
    return out;
}

// ------------------------------------------------------------------------------------------------ values
struct Vals {
    Rng& r; std::string pclass;
    double real() {
        double x = r.sym(2.0); if (std::abs(x) < 0.05) x = (x < 0 ? -0.05 : 0.05);
        long i = r.range(0, 5); bool z = r.coin(0.4);
        if (pclass == "integers") { static const double v[] = {-3, -2, -1, 1, 2, 3}; return v[i]; }
        if (pclass == "negative") return -std::abs(x);
        if (pclass == "zero-mix") return z ? 0.0 : x;
        return x;
    }
    double nonzero() { double x = real(); return x == 0.0 ? 0.75 : x; }
    // complex amplitude (complex build only); the same random numbers are consumed in both builds
    cd amp(bool allow_zero = true) {
        double re = allow_zero ? real() : nonzero(); double ph = r.uni(0, 2 * M_PI); bool cx = r.coin(0.7);
        if (kComplexBuild && cx) return re * cd(std::cos(ph), std::sin(ph));
        return cd(re, 0);
    }
};

std::string sv(const cd& v) {
    char b[96];
    if (kComplexBuild) snprintf(b, sizeof b, "(%.17g,%.17g)", v.real(), v.imag()); else snprintf(b, sizeof b, "%.17g", v.real());
    return b;
}
std::string si(int x) { return std::to_string(x); }

// ------------------------------------------------------------------------------------------------ raw user terms
struct Fac { int dag; int m; };          // m = position in the list of modes (site, orbital, spin)
typedef std::vector<Fac> Seq;
struct Mode { int site, orb, spin; };

bool prod_zero(int N, const Seq& s, size_t len) {     // is f_0 f_1 ... f_{len-1} the zero operator? (mode positions used as bits)
    for (uint64_t st = 0; st < (1ULL << N); ++st) {
        uint64_t x = st; int sg = 1; bool ok = true;
        for (long k = (long)len - 1; k >= 0 && ok; --k) { FOp o; o.dag = s[(size_t)k].dag != 0; o.idx = s[(size_t)k].m; ok = jw_apply(o, x, sg); }
        if (ok) return false;
    }
    return true;
}
std::string classify(int N, const Seq& s) {
    size_t n = s.size(), q = 0;
    for (size_t len = 1; len <= n && !q; ++len) if (prod_zero(N, s, len)) q = len;
    if (!q) { int nd = 0; for (auto& f : s) nd += f.dag; return 2 * (size_t)nd == n ? "plain" : "non-conserving"; }
    return q == n ? "repeated-factor" : "partial-product-vanishes";
}
// n factors, nd of them creators, in random order, on random modes; distinct -> no (type, mode) factor occurs twice
Seq gen_seq(Rng& r, int N, int n, int nd, bool distinct) {
    std::vector<int> dags((size_t)n, 0); for (int k = 0; k < nd; ++k) dags[(size_t)k] = 1;
    for (int k = n - 1; k > 0; --k) { int j = (int)r.range(0, k); std::swap(dags[(size_t)k], dags[(size_t)j]); }
    Seq s;
    for (int k = 0; k < n; ++k) {
        Fac f; f.dag = dags[(size_t)k]; f.m = 0;
        for (int tries = 0; tries < 200; ++tries) {
            f.m = (int)r.range(0, N - 1); bool dup = false;
            if (distinct) for (auto& g : s) dup = dup || (g.dag == f.dag && g.m == f.m);
            if (!dup) break;
        }
        s.push_back(f);
    }
    return s;
}
int feasible_nd(Rng& r, int N, int n, bool conserving) {
    if (conserving) return n / 2;
    std::vector<int> ok; for (int nd = 0; nd <= n; ++nd) if (2 * nd != n && nd <= N && n - nd <= N) ok.push_back(nd);
    if (ok.empty()) return n / 2;
    return r.pick(ok);
}
// product vanishes exactly when the last factor is multiplied in
Seq gen_vanish_at_end(Rng& r, int N, int n) {
    for (int tries = 0; tries < 200; ++tries) {
        int lo = std::max(0, n - 1 - N), hi = std::min(n - 1, N); const bool feas = lo <= hi;   // distinct factors need nd <= N and n-1-nd <= N
        int nd = feas ? (int)r.range(lo, hi) : (int)r.range(0, n - 1);
        Seq s = gen_seq(r, N, n - 1, nd, feas);
        s.push_back(s[(size_t)r.range(0, n - 2)]);
        if (classify(N, s) == "repeated-factor") return s;
    }
    Seq s; Fac f = {1, 0}; Fac g = {0, N > 1 ? 1 : 0};   // deterministic fall-back: c+_0 (c_1 ...) c+_0
    s.push_back(f); for (int k = 0; k < n - 2; ++k) { g.dag = k & 1; g.m = N > 1 ? 1 + k % (N - 1) : 0; s.push_back(g); } s.push_back(f);
    return s;
}
Seq gen_class(Rng& r, int N, int n, const std::string& cls) {
    for (int tries = 0; tries < 200; ++tries) {
        Seq s;
        if (cls == "plain") s = gen_seq(r, N, n, n / 2, !r.coin(0.2));
        else if (cls == "non-conserving") s = gen_seq(r, N, n, feasible_nd(r, N, n, false), true);
        else if (cls == "repeated-factor") s = gen_vanish_at_end(r, N, n);
        else {   // partial-product-vanishes
            int q = (int)r.range(2, n - 1);
            s = gen_vanish_at_end(r, N, q);
            for (int k = q; k < n; ++k) { Fac f; f.dag = (int)r.range(0, 1); f.m = (int)r.range(0, N - 1); s.push_back(f); }
        }
        if (classify(N, s) == cls) return s;
    }
    return Seq();
}
Seq hc_seq(const Seq& s) { Seq h; for (size_t k = s.size(); k-- > 0;) { Fac f = s[k]; f.dag = !f.dag; h.push_back(f); } return h; }
bool same_seq(const Seq& a, const Seq& b) { if (a.size() != b.size()) return false; for (size_t k = 0; k < a.size(); ++k) if (a[k].dag != b[k].dag || a[k].m != b[k].m) return false; return true; }

// ------------------------------------------------------------------------------------------------ builder: library call + documented operator
struct Builder {
    Pipeline& p; Terms ref; J calls = J::arr(); bool refused = false; std::string refusal; std::vector<Mode> modes;
    explicit Builder(Pipeline& p_) : p(p_) {
        for (int s = 0; s < (int)p.spec.sites.size(); ++s) for (int o = 0; o < p.spec.sites[(size_t)s].norb; ++o) for (int z = 0; z < p.spec.sites[(size_t)s].nspin; ++z) { Mode m = {s, o, z}; modes.push_back(m); }
    }
    const SiteSpec& S(int i) const { return p.spec.sites[(size_t)i]; }
    const std::string& lab(int i) const { return S(i).label; }
    std::string ql(int i) const { return "\"" + lab(i) + "\""; }

    // ---------- the documented operators (transcribed from LatticePresets.h; NOT from LatticePresets.cpp)
    FOp Cd(int s, int o, int z) const { FOp f; f.dag = true; f.idx = p.index_of(s, o, z); return f; }
    FOp C(int s, int o, int z) const { FOp f; f.dag = false; f.idx = p.index_of(s, o, z); return f; }
    void add(cd v, const std::vector<FOp>& ops) { RefTerm t; t.ops = ops; t.val = v; ref.push_back(t); }
    void d_hop(int i, int j, cd t, int o1, int o2, int s1, int s2) { add(t, {Cd(i, o1, s1), C(j, o2, s2)}); }                      // t c+_{i o1 s1} c_{j o2 s2}
    void d_n(int i, cd e, int o, int s) { add(e, {Cd(i, o, s), C(i, o, s)}); }                                                    // eps c+c
    void d_nn(int i, int j, cd U, int o1, int o2, int s1, int s2) { add(U, {Cd(i, o1, s1), C(i, o1, s1), Cd(j, o2, s2), C(j, o2, s2)}); }   // U n n
    void d_spinflip(int i, cd J_, int a, int b, int s, int t) { add(J_, {Cd(i, a, s), Cd(i, b, t), C(i, b, s), C(i, a, t)}); }    // J c+_{a s} c+_{a' s'} c_{a' s} c_{a s'}
    void d_pairhop(int i, cd J_, int a, int b, int s, int t) { add(J_, {Cd(i, a, s), Cd(i, a, t), C(i, b, s), C(i, b, t)}); }     // J c+_{a s} c+_{a s'} c_{a' s} c_{a' s'}
    void d_spsm(int i, int j, cd J_, int o) { add(J_, {Cd(i, o, UP), C(i, o, DN), Cd(j, o, DN), C(j, o, UP)}); }                  // J S+_{i o} S-_{j o}
    void d_smsp(int i, int j, cd J_, int o) { add(J_, {Cd(i, o, DN), C(i, o, UP), Cd(j, o, UP), C(j, o, DN)}); }                  // J S-_{i o} S+_{j o}
    void d_coulombS(int i, cd U, cd eps) {
        for (int a = 0; a < S(i).norb; ++a) for (int s = 0; s < S(i).nspin; ++s) for (int t = 0; t < s; ++t) d_nn(i, i, U, a, a, s, t);
        for (int a = 0; a < S(i).norb; ++a) for (int s = 0; s < S(i).nspin; ++s) d_n(i, eps, a, s);
    }
    void d_coulombP(int i, cd U, cd Up, cd J_, cd eps) {
        const int no = S(i).norb, ns = S(i).nspin;
        for (int a = 0; a < no; ++a) for (int s = 0; s < ns; ++s) for (int t = 0; t < s; ++t) d_nn(i, i, U, a, a, s, t);
        for (int a = 0; a < no; ++a) for (int b = 0; b < no; ++b) if (a != b) for (int s = 0; s < ns; ++s) for (int t = 0; t < s; ++t) d_nn(i, i, Up, a, b, s, t);
        for (int a = 0; a < no; ++a) for (int b = 0; b < no; ++b) if (a != b) for (int s = 0; s < ns; ++s) d_nn(i, i, (Up - J_) / 2.0, a, b, s, s);
        for (int a = 0; a < no; ++a) for (int b = 0; b < no; ++b) if (a != b) for (int s = 0; s < ns; ++s) for (int t = 0; t < s; ++t) {
            add(-J_, {Cd(i, a, s), Cd(i, b, t), C(i, b, s), C(i, a, t)});
            add(-J_, {Cd(i, b, s), Cd(i, b, t), C(i, a, s), C(i, a, t)});
        }
        for (int a = 0; a < no; ++a) for (int s = 0; s < ns; ++s) d_n(i, eps, a, s);
    }
    void d_magnetization(int i, cd mH) { for (int a = 0; a < S(i).norb; ++a) { d_n(i, 0.5 * mH, a, UP); d_n(i, -0.5 * mH, a, DN); } }
    void d_level(int i, cd eps) { for (int a = 0; a < S(i).norb; ++a) for (int s = 0; s < S(i).nspin; ++s) d_n(i, eps, a, s); }
    void d_szsz(int i, int j, cd J_) {   // J * 1/2(n_up - n_dn)_i * 1/2(n_up - n_dn)_j
        for (int a = 0; a < S(i).norb; ++a) {
            d_nn(i, j, 0.25 * J_, a, a, UP, UP); d_nn(i, j, -0.25 * J_, a, a, UP, DN);
            d_nn(i, j, -0.25 * J_, a, a, DN, UP); d_nn(i, j, 0.25 * J_, a, a, DN, DN);
        }
    }
    void d_ss(int i, int j, cd J_) {     // J (Sz Sz + 1/2 (S+ S- + S- S+))
        d_szsz(i, j, J_);
        for (int a = 0; a < S(i).norb; ++a) { d_spsm(i, j, 0.5 * J_, a); d_smsp(i, j, 0.5 * J_, a); }
    }
    void d_hopping_hc(int i, int j, cd t, int o1, int o2, int s1, int s2) { d_hop(i, j, t, o1, o2, s1, s2); d_hop(j, i, std::conj(t), o2, o1, s2, s1); }

    // ---------- library calls
    template <class F> bool call(const std::string& text, F f) {
        calls.push(text);
        try { f(); return true; }
        catch (const std::exception& ex) { if (!refused) refusal = text + " threw " + typeid(ex).name() + " (" + ex.what() + ")"; refused = true; return false; }
    }
    template <class F> bool term(const std::string& text, F make) {   // Term factory + Lattice::addTerm
        return call("addTerm(" + text + ")", [&]() { std::unique_ptr<LTerm> T(make()); p.L.addTerm(T.get()); });
    }

    bool addCoulombS(int i, cd U, cd eps) {
        if (!call("addCoulombS(L," + ql(i) + "," + sv(U) + "," + sv(eps) + ")", [&]() { LP::addCoulombS(&p.L, lab(i), to_melem(U), to_melem(eps)); })) return false;
        d_coulombS(i, U, eps); return true;
    }
    bool addCoulombP4(int i, cd U, cd Up, cd J_, cd eps) {
        if (!call("addCoulombP(L," + ql(i) + "," + sv(U) + "," + sv(Up) + "," + sv(J_) + "," + sv(eps) + ")", [&]() { LP::addCoulombP(&p.L, lab(i), to_melem(U), to_melem(Up), to_melem(J_), to_melem(eps)); })) return false;
        d_coulombP(i, U, Up, J_, eps); return true;
    }
    bool addCoulombP3(int i, cd U, cd J_, cd eps) {
        if (!call("addCoulombP(L," + ql(i) + "," + sv(U) + "," + sv(J_) + "," + sv(eps) + ")", [&]() { LP::addCoulombP(&p.L, lab(i), to_melem(U), to_melem(J_), to_melem(eps)); })) return false;
        d_coulombP(i, U, U - 2.0 * J_, J_, eps); return true;
    }
    bool addMagnetization(int i, cd mH) {
        if (!call("addMagnetization(L," + ql(i) + "," + sv(mH) + ")", [&]() { LP::addMagnetization(&p.L, lab(i), to_melem(mH)); })) return false;
        d_magnetization(i, mH); return true;
    }
    bool addLevel(int i, cd eps) {
        if (!call("addLevel(L," + ql(i) + "," + sv(eps) + ")", [&]() { LP::addLevel(&p.L, lab(i), to_melem(eps)); })) return false;
        d_level(i, eps); return true;
    }
    bool addSzSz(int i, int j, cd J_) {
        if (!call("addSzSz(L," + ql(i) + "," + ql(j) + "," + sv(J_) + ")", [&]() { LP::addSzSz(&p.L, lab(i), lab(j), to_melem(J_)); })) return false;
        d_szsz(i, j, J_); return true;
    }
    bool addSS(int i, int j, cd J_) {
        if (!call("addSS(L," + ql(i) + "," + ql(j) + "," + sv(J_) + ")", [&]() { LP::addSS(&p.L, lab(i), lab(j), to_melem(J_)); })) return false;
        d_ss(i, j, J_); return true;
    }
    bool addHopping7(int i, int j, cd t, int o1, int o2, int s1, int s2) {
        if (!call("addHopping(L," + ql(i) + "," + ql(j) + "," + sv(t) + "," + si(o1) + "," + si(o2) + "," + si(s1) + "," + si(s2) + ")", [&]() { LP::addHopping(&p.L, lab(i), lab(j), to_melem(t), (us)o1, (us)o2, (us)s1, (us)s2); })) return false;
        d_hopping_hc(i, j, t, o1, o2, s1, s2); return true;
    }
    bool addHopping6(int i, int j, cd t, int o1, int o2, int s) {
        if (!call("addHopping(L," + ql(i) + "," + ql(j) + "," + sv(t) + "," + si(o1) + "," + si(o2) + "," + si(s) + ")", [&]() { LP::addHopping(&p.L, lab(i), lab(j), to_melem(t), (us)o1, (us)o2, (us)s); })) return false;
        d_hopping_hc(i, j, t, o1, o2, s, s); return true;
    }
    bool addHopping5(int i, int j, cd t, int o1, int o2) {
        if (!call("addHopping(L," + ql(i) + "," + ql(j) + "," + sv(t) + "," + si(o1) + "," + si(o2) + ")", [&]() { LP::addHopping(&p.L, lab(i), lab(j), to_melem(t), (us)o1, (us)o2); })) return false;
        for (int s = 0; s < S(i).nspin; ++s) d_hopping_hc(i, j, t, o1, o2, s, s);
        return true;
    }
    bool addHopping4(int i, int j, cd t) {
        if (!call("addHopping(L," + ql(i) + "," + ql(j) + "," + sv(t) + ")", [&]() { LP::addHopping(&p.L, lab(i), lab(j), to_melem(t)); })) return false;
        for (int s = 0; s < S(i).nspin; ++s) for (int a = 0; a < S(i).norb; ++a) d_hopping_hc(i, j, t, a, a, s, s);
        return true;
    }
    // Term factories
    bool tHopping7(int i, int j, cd t, int o1, int o2, int s1, int s2) {
        if (!term("Hopping(" + ql(i) + "," + ql(j) + "," + sv(t) + "," + si(o1) + "," + si(o2) + "," + si(s1) + "," + si(s2) + ")", [&]() { return TP::Hopping(lab(i), lab(j), to_melem(t), (us)o1, (us)o2, (us)s1, (us)s2); })) return false;
        d_hop(i, j, t, o1, o2, s1, s2); return true;
    }
    bool tHopping5(int i, int j, cd t, int o, int s) {
        if (!term("Hopping(" + ql(i) + "," + ql(j) + "," + sv(t) + "," + si(o) + "," + si(s) + ")", [&]() { return TP::Hopping(lab(i), lab(j), to_melem(t), (us)o, (us)s); })) return false;
        d_hop(i, j, t, o, o, s, s); return true;
    }
    bool tLevel(int i, cd e, int o, int s) {
        if (!term("Level(" + ql(i) + "," + sv(e) + "," + si(o) + "," + si(s) + ")", [&]() { return TP::Level(lab(i), to_melem(e), (us)o, (us)s); })) return false;
        d_n(i, e, o, s); return true;
    }
    bool tNN7(int i, int j, cd U, int o1, int o2, int s1, int s2) {
        if (!term("NupNdown(" + ql(i) + "," + ql(j) + "," + sv(U) + "," + si(o1) + "," + si(o2) + "," + si(s1) + "," + si(s2) + ")", [&]() { return TP::NupNdown(lab(i), lab(j), to_melem(U), (us)o1, (us)o2, (us)s1, (us)s2); })) return false;
        d_nn(i, j, U, o1, o2, s1, s2); return true;
    }
    bool tNN6(int i, cd U, int o1, int o2, int s1, int s2) {
        if (!term("NupNdown(" + ql(i) + "," + sv(U) + "," + si(o1) + "," + si(o2) + "," + si(s1) + "," + si(s2) + ")", [&]() { return TP::NupNdown(lab(i), to_melem(U), (us)o1, (us)o2, (us)s1, (us)s2); })) return false;
        d_nn(i, i, U, o1, o2, s1, s2); return true;
    }
    bool tNN4(int i, cd U, int o1, int o2) {   // (Label, Value, orbital1, orbital2): spin1 = up, spin2 = down.  A plain 4-argument call is ambiguous with the
        // (Label, Value, orbital, spin1 = up, spin2 = down) overload, so this overload is only reachable through its exact function type.
        typedef LTerm* (*F4)(const std::string&, Pomerol::MelemType, unsigned short, unsigned short);
        F4 f = &TP::NupNdown;
        if (!term("NupNdown[orbital1,orbital2](" + ql(i) + "," + sv(U) + "," + si(o1) + "," + si(o2) + ")", [&]() { return f(lab(i), to_melem(U), (us)o1, (us)o2); })) return false;
        d_nn(i, i, U, o1, o2, UP, DN); return true;
    }
    bool tNN3(int i, cd U, int o) {
        if (!term("NupNdown(" + ql(i) + "," + sv(U) + "," + si(o) + ")", [&]() { return TP::NupNdown(lab(i), to_melem(U), (us)o); })) return false;
        d_nn(i, i, U, o, o, UP, DN); return true;
    }
    bool tNN5(int i, cd U, int o, int s1, int s2) {
        if (!term("NupNdown(" + ql(i) + "," + sv(U) + "," + si(o) + "," + si(s1) + "," + si(s2) + ")", [&]() { return TP::NupNdown(lab(i), to_melem(U), (us)o, (us)s1, (us)s2); })) return false;
        d_nn(i, i, U, o, o, s1, s2); return true;
    }
    bool tSpinflip(int i, cd J_, int o1, int o2, int s1, int s2, bool defaults) {
        bool ok = defaults ? term("Spinflip(" + ql(i) + "," + sv(J_) + "," + si(o1) + "," + si(o2) + ")", [&]() { return TP::Spinflip(lab(i), to_melem(J_), (us)o1, (us)o2); })
                           : term("Spinflip(" + ql(i) + "," + sv(J_) + "," + si(o1) + "," + si(o2) + "," + si(s1) + "," + si(s2) + ")", [&]() { return TP::Spinflip(lab(i), to_melem(J_), (us)o1, (us)o2, (us)s1, (us)s2); });
        if (!ok) return false;
        if (defaults) d_spinflip(i, J_, o1, o2, UP, DN); else d_spinflip(i, J_, o1, o2, s1, s2);
        return true;
    }
    bool tPairHopping(int i, cd J_, int o1, int o2, int s1, int s2, bool defaults) {
        bool ok = defaults ? term("PairHopping(" + ql(i) + "," + sv(J_) + "," + si(o1) + "," + si(o2) + ")", [&]() { return TP::PairHopping(lab(i), to_melem(J_), (us)o1, (us)o2); })
                           : term("PairHopping(" + ql(i) + "," + sv(J_) + "," + si(o1) + "," + si(o2) + "," + si(s1) + "," + si(s2) + ")", [&]() { return TP::PairHopping(lab(i), to_melem(J_), (us)o1, (us)o2, (us)s1, (us)s2); });
        if (!ok) return false;
        if (defaults) d_pairhop(i, J_, o1, o2, UP, DN); else d_pairhop(i, J_, o1, o2, s1, s2);
        return true;
    }
    bool tSpSm(int i, int j, cd J_, int o) {
        if (!term("SplusSminus(" + ql(i) + "," + ql(j) + "," + sv(J_) + "," + si(o) + ")", [&]() { return TP::SplusSminus(lab(i), lab(j), to_melem(J_), (us)o); })) return false;
        d_spsm(i, j, J_, o); return true;
    }
    bool tSmSp(int i, int j, cd J_, int o) {
        if (!term("SminusSplus(" + ql(i) + "," + ql(j) + "," + sv(J_) + "," + si(o) + ")", [&]() { return TP::SminusSplus(lab(i), lab(j), to_melem(J_), (us)o); })) return false;
        d_smsp(i, j, J_, o); return true;
    }
    // raw user term: Value * f_0 f_1 ... f_{n-1}
    bool raw(const Seq& s, cd v) {
        RawTerm rt; rt.val = v; std::string text = sv(v) + "*";
        for (auto& f : s) {
            const Mode& m = modes[(size_t)f.m]; rt.dag.push_back(f.dag); rt.site.push_back(m.site); rt.orb.push_back(m.orb); rt.spin.push_back(m.spin);
            text += std::string(f.dag ? "c+" : "c") + "(" + ql(m.site) + "," + si(m.orb) + "," + si(m.spin) + ")";
        }
        if (!call("addTerm(" + text + ")", [&]() { std::unique_ptr<LTerm> T(make_lib_term(p.spec, rt)); p.L.addTerm(T.get()); })) return false;
        std::vector<FOp> ops; for (auto& f : s) { const Mode& m = modes[(size_t)f.m]; ops.push_back(f.dag ? Cd(m.site, m.orb, m.spin) : C(m.site, m.orb, m.spin)); }
        add(v, ops); return true;
    }
    // a user term together with its Hermitian conjugate (once only if it is literally self-conjugate)
    void raw_hc(const Seq& s, cd v) {
        Seq h = hc_seq(s);
        if (same_seq(s, h)) { raw(s, cd(v.real(), 0)); return; }
        raw(s, v); raw(h, std::conj(v));
    }
};

// distinct second mode on the same site
void other_mode(Rng& r, const SiteSpec& S, int o1, int s1, int& o2, int& s2) {
    for (;;) { o2 = (int)r.range(0, S.norb - 1); s2 = (int)r.range(0, S.nspin - 1); if (o2 != o1 || s2 != s1) return; }
}
int other(Rng& r, int n, int x) { int y = (int)r.range(0, n - 2); return y >= x ? y + 1 : y; }

// ------------------------------------------------------------------------------------------------ the single-ingredient cases
std::vector<Shape> shapes_for(const Entry& e, Rng& r, int B, int& maxN, bool quick) {
    std::vector<Shape> f; const std::string& n = e.name; const std::string& v = e.var;
    auto big = [&]() { if (quick && r.coin(0.25)) maxN = 8; return maxN; };   // two equal multi-orbital spin-1/2 sites need 8 modes
    if (e.kind == "preset") {
        if (n == "addCoulombS") { int s = v == "spins1" ? 1 : v == "spins2" ? 2 : 3; f.push_back(rshape(r, B, 1, 3, s, s)); }
        else if (n == "addCoulombP4" || n == "addCoulombP3") { if (v == "spins2") f.push_back(rshape(r, B, 2, 3, 2, 2)); else f.push_back(rshape(r, B, 2, 2, 3, 3)); }
        else if (n == "addCoulombP") { if (r.coin()) f.push_back(rshape(r, B, 1, 1, 1, 3)); else f.push_back(rshape(r, B, 1, 3, 1, 1)); }
        else if (n == "addMagnetization") f.push_back(rshape(r, B, 1, 3, 2, 2));
        else if (n == "addLevel") f.push_back(rshape(r, B, 1, 3, 1, 3));
        else if (n == "addSzSz" || n == "addSS") {
            if (v == "two-site") { int b = big(); Shape s = rshape(r, b / 2, 1, 3, 2, 2); f.push_back(s); f.push_back(s); }
            else f.push_back(rshape(r, B, 1, 3, 2, 2));
        }
        else if (n == "addHopping7" || n == "addHopping6") {
            if (v == "two-site") { Shape a = rshape(r, B - 1, 1, 3, 1, 3); f.push_back(a); f.push_back(rshape(r, B - a.norb * a.nspin, 1, 3, 1, 3)); }
            else if (v == "same-site") { if (n == "addHopping6") f.push_back(rshape(r, B, 2, 3, 1, 3)); else { Shape a; do a = rshape(r, B, 1, 3, 1, 3); while (a.norb * a.nspin < 2); f.push_back(a); } }
            else f.push_back(rshape(r, B, 1, 3, 1, 3));
        }
        else if (n == "addHopping5") {
            if (v == "two-site") { int s = (int)r.range(1, 3); Shape a = rshape(r, B - s, 1, 3, s, s); f.push_back(a); f.push_back(rshape(r, B - a.norb * s, 1, 3, s, s)); }
            else if (v == "same-site") f.push_back(rshape(r, B, 2, 3, 1, 3));
            else f.push_back(rshape(r, B, 1, 3, 1, 3));
        }
        else if (n == "addHopping4") {
            if (v == "two-site") { int b = big(); Shape s = rshape(r, b / 2, 1, 3, 1, 3); f.push_back(s); f.push_back(s); }
            else f.push_back(rshape(r, B, 1, 3, 1, 3));
        }
    } else if (e.kind == "term") {
        auto two_any = [&](int slo) { Shape a = rshape(r, B - slo, 1, 3, slo, 3); f.push_back(a); f.push_back(rshape(r, B - a.norb * a.nspin, 1, 3, slo, 3)); };
        auto one_ge2 = [&]() { Shape a; do a = rshape(r, B, 1, 3, 1, 3); while (a.norb * a.nspin < 2); f.push_back(a); };
        if (n == "Hopping7") { if (v == "two-site") two_any(1); else one_ge2(); }
        else if (n == "Hopping5") { if (v == "two-site") two_any(1); else f.push_back(rshape(r, B, 1, 3, 1, 3)); }
        else if (n == "Level") f.push_back(rshape(r, B, 1, 3, 1, 3));
        else if (n == "NupNdown7") { if (v == "two-site") two_any(1); else if (v == "same-site") one_ge2(); else f.push_back(rshape(r, B, 1, 3, 1, 3)); }
        else if (n == "NupNdown6") { if (v == "distinct") one_ge2(); else f.push_back(rshape(r, B, 1, 3, 1, 3)); }
        else if (n == "NupNdown4" || n == "NupNdown3") f.push_back(rshape(r, B, 1, 3, 2, 3));
        else if (n == "NupNdown5") { if (v == "distinct") f.push_back(rshape(r, B, 1, 3, 2, 3)); else f.push_back(rshape(r, B, 1, 3, 1, 3)); }
        else if (n == "Spinflip" || n == "PairHopping") f.push_back(rshape(r, B, 2, 3, 2, 3));
        else if (n == "SplusSminus" || n == "SminusSplus") { if (v == "two-site") two_any(2); else f.push_back(rshape(r, B, 1, 3, 2, 3)); }
    } else if (e.kind == "su2") {
        if (n == "kanamori") f.push_back(rshape(r, B, 2, 3, 2, 2));
        else if (e.var == "two-site") { int b = big(); Shape s = rshape(r, b / 2, 1, 3, 2, 2); f.push_back(s); f.push_back(s); }
        else f.push_back(rshape(r, B, 1, 3, 2, 2));
    }
    return f;
}

void apply_single(const Entry& e, Builder& b, Rng& r, Vals& V, J& feat) {
    const std::string& n = e.name; const std::string& v = e.var;
    const SiteSpec& A = b.S(0);
    const int j2 = (int)b.p.spec.sites.size() > 1 ? 1 : 0;
    const SiteSpec& Bs = b.S(j2);
    if (e.kind == "preset" || e.kind == "su2") {
        if (n == "addCoulombS") { cd U = V.real(); cd eps = V.real(); b.addCoulombS(0, U, eps); }
        else if (n == "addCoulombP4") {
            cd U = V.real(); cd Up = V.real(); cd J_ = V.real(); cd eps = V.real();
            bool z = r.coin(0.15); if (z) Up = J_; feat.set("UpmJ_zero", z || Up == J_);
            b.addCoulombP4(0, U, Up, J_, eps);
        }
        else if (n == "addCoulombP3" || n == "kanamori") { cd U = V.real(); cd J_ = V.real(); cd eps = V.real(); b.addCoulombP3(0, U, J_, eps); }
        else if (n == "addCoulombP") { bool four = r.coin(); cd U = V.nonzero(); cd Up = V.nonzero(); cd J_ = V.nonzero(); cd eps = V.nonzero(); if (four) b.addCoulombP4(0, U, Up, J_, eps); else b.addCoulombP3(0, U, J_, eps); }
        else if (n == "addMagnetization") { cd mH = V.real(); b.addMagnetization(0, mH); }
        else if (n == "addLevel") { cd eps = V.real(); b.addLevel(0, eps); }
        else if (n == "addSzSz") { cd J_ = V.real(); b.addSzSz(0, v == "two-site" ? 1 : 0, J_); }
        else if (n == "addSS" || n == "SS") { cd J_ = V.real(); b.addSS(0, v == "two-site" ? 1 : 0, J_); }
        else if (n == "addHopping7") {
            cd t = V.amp(); int o1 = (int)r.range(0, A.norb - 1); int s1 = (int)r.range(0, A.nspin - 1); int o2, s2;
            if (v == "two-site") { o2 = (int)r.range(0, Bs.norb - 1); s2 = (int)r.range(0, Bs.nspin - 1); b.addHopping7(0, 1, t, o1, o2, s1, s2); }
            else if (v == "same-site") { other_mode(r, A, o1, s1, o2, s2); b.addHopping7(0, 0, t, o1, o2, s1, s2); }
            else b.addHopping7(0, 0, t, o1, o1, s1, s1);
        }
        else if (n == "addHopping6") {
            cd t = V.amp(); int o1 = (int)r.range(0, A.norb - 1);
            if (v == "two-site") { int s = (int)r.range(0, std::min(A.nspin, Bs.nspin) - 1); int ob = (int)r.range(0, Bs.norb - 1); b.addHopping6(0, 1, t, o1, ob, s); }
            else { int s = (int)r.range(0, A.nspin - 1); int ob = v == "same-site" ? other(r, A.norb, o1) : o1; b.addHopping6(0, 0, t, o1, ob, s); }
        }
        else if (n == "addHopping5") {
            cd t = V.amp(); int o1 = (int)r.range(0, A.norb - 1);
            int ob = v == "two-site" ? (int)r.range(0, Bs.norb - 1) : v == "same-site" ? other(r, A.norb, o1) : o1;
            b.addHopping5(0, v == "two-site" ? 1 : 0, t, o1, ob);
        }
        else if (n == "addHopping4") { cd t = V.amp(); b.addHopping4(0, v == "two-site" ? 1 : 0, t); }
    } else if (e.kind == "term") {
        int o1 = (int)r.range(0, A.norb - 1); int s1 = (int)r.range(0, A.nspin - 1); int o2 = 0, s2 = 0;
        if (n == "Hopping7") {
            cd t = V.amp();
            if (v == "two-site") { o2 = (int)r.range(0, Bs.norb - 1); s2 = (int)r.range(0, Bs.nspin - 1); b.tHopping7(0, 1, t, o1, o2, s1, s2); }
            else { other_mode(r, A, o1, s1, o2, s2); b.tHopping7(0, 0, t, o1, o2, s1, s2); }
        }
        else if (n == "Hopping5") {
            cd t = V.amp();
            if (v == "two-site") { o2 = (int)r.range(0, std::min(A.norb, Bs.norb) - 1); s2 = (int)r.range(0, std::min(A.nspin, Bs.nspin) - 1); b.tHopping5(0, 1, t, o2, s2); }
            else b.tHopping5(0, 0, t, o1, s1);
        }
        else if (n == "Level") { cd eps = V.real(); b.tLevel(0, eps, o1, s1); }
        else if (n == "NupNdown7") {
            cd U = V.real();
            if (v == "two-site") { o2 = (int)r.range(0, Bs.norb - 1); s2 = (int)r.range(0, Bs.nspin - 1); b.tNN7(0, 1, U, o1, o2, s1, s2); }
            else if (v == "same-site") { other_mode(r, A, o1, s1, o2, s2); b.tNN7(0, 0, U, o1, o2, s1, s2); }
            else b.tNN7(0, 0, U, o1, o1, s1, s1);
        }
        else if (n == "NupNdown6") { cd U = V.real(); if (v == "distinct") { other_mode(r, A, o1, s1, o2, s2); b.tNN6(0, U, o1, o2, s1, s2); } else b.tNN6(0, U, o1, o1, s1, s1); }
        else if (n == "NupNdown4") { cd U = V.real(); o2 = (int)r.range(0, A.norb - 1); b.tNN4(0, U, o1, o2); }
        else if (n == "NupNdown3") { cd U = V.real(); b.tNN3(0, U, o1); }
        else if (n == "NupNdown5") { cd U = V.real(); s2 = v == "distinct" ? other(r, A.nspin, s1) : s1; b.tNN5(0, U, o1, s1, s2); }
        else if (n == "Spinflip") { cd J_ = V.real(); o2 = other(r, A.norb, o1); s2 = other(r, A.nspin, s1); b.tSpinflip(0, J_, o1, o2, s1, s2, v == "default-spins"); }
        else if (n == "PairHopping") { cd J_ = V.real(); o2 = other(r, A.norb, o1); s2 = other(r, A.nspin, s1); b.tPairHopping(0, J_, o1, o2, s1, s2, v == "default-spins"); }
        else if (n == "SplusSminus" || n == "SminusSplus") {
            cd J_ = V.real(); int o = v == "two-site" ? (int)r.range(0, std::min(A.norb, Bs.norb) - 1) : o1; int j = v == "two-site" ? 1 : 0;
            if (n == "SplusSminus") b.tSpSm(0, j, J_, o); else b.tSmSp(0, j, J_, o);
        }
    }
}

void apply_user(const Entry& e, Builder& b, Rng& r, Vals& V, J& feat) {
    const int N = b.p.N; const int n = atoi(e.name.c_str()); const std::string& cls = e.var;
    if (cls != "cancelling") {
        Seq s = gen_class(r, N, n, cls);
        if (s.empty()) return;
        cd uv = V.amp(false); b.raw(s, uv);
        return;
    }
    // cancelling: several terms hit the same normal-ordered monomial(s)
    cd v = V.amp(false);
    if (n >= 2 && N >= n / 2 && r.coin(0.3)) {
        // X c_a c+_a Y  +  X c+_a c_a Y  =  X Y   (the quartic/sextic monomials cancel, a lower-order one survives; for n = 2 the constant v)
        for (int tries = 0; tries < 200; ++tries) {
            Seq rest = n > 2 ? gen_seq(r, N, n - 2, (n - 2) / 2, true) : Seq();
            int a = (int)r.range(0, N - 1); bool used = false; for (auto& f : rest) used = used || f.m == a;
            if (used && tries < 199) continue;
            size_t pos = (size_t)r.range(0, (long)rest.size());
            Seq s1 = rest, s2 = rest; Fac ca = {0, a}, cda = {1, a};
            s1.insert(s1.begin() + (long)pos, cda); s1.insert(s1.begin() + (long)pos, ca);     // ... c_a c+_a ...
            s2.insert(s2.begin() + (long)pos, ca); s2.insert(s2.begin() + (long)pos, cda);     // ... c+_a c_a ...
            b.raw(s1, v); b.raw(s2, v); feat.set("cancel_flavour", "anticommutator");
            return;
        }
    }
    for (int tries = 0; tries < 200; ++tries) {
        Seq s = gen_seq(r, N, n, n / 2, true), q = s; int sign = 1, swaps = 0;
        const int attempts = (int)r.range(1, 2 * n);
        for (int m = 0; m < attempts; ++m) {
            size_t k = (size_t)r.range(0, n - 2);
            if (q[k].m == q[k + 1].m) continue;          // conjugate partners do not simply anticommute
            std::swap(q[k], q[k + 1]); sign = -sign; ++swaps;
        }
        if (!swaps || same_seq(s, q)) continue;
        bool full = r.coin(0.35); double d = V.nonzero() * 0.5;
        cd w = -double(sign) * (full ? v : v - cd(d, 0));   // v*s + w*q = (v + sign*w) s = (full ? 0 : d) * s
        b.raw(s, v); b.raw(q, w);
        feat.set("cancel_flavour", full ? "permutation-full" : "permutation-partial");
        if (full && r.coin(0.6)) { Seq x = gen_class(r, N, n, "plain"); if (!x.empty()) { cd xv = V.amp(false); b.raw(x, xv); } }
        return;
    }
}

struct Ingredient { std::string name; std::function<void(Builder&)> f; };

// random self-adjoint ingredients (every non-self-adjoint term comes with its Hermitian conjugate); all random numbers are drawn here
std::vector<Ingredient> gen_sum(const Builder& b, Rng& r, Vals& V) {
    const int ns = (int)b.p.spec.sites.size(); const int N = b.p.N;
    std::vector<int> s2, sP; std::vector<std::pair<int, int>> pairs2, pairsShape;
    for (int i = 0; i < ns; ++i) {
        if (b.S(i).nspin == 2) s2.push_back(i);
        if (b.S(i).norb >= 2 && b.S(i).nspin >= 2) sP.push_back(i);
        for (int j = 0; j < ns; ++j) {
            bool same = b.S(i).norb == b.S(j).norb && b.S(i).nspin == b.S(j).nspin;
            if (same && b.S(i).nspin == 2) pairs2.push_back(std::make_pair(i, j));
            if (same) pairsShape.push_back(std::make_pair(i, j));
        }
    }
    std::vector<Ingredient> out;
    const int want = (int)r.range(2, 6);
    for (int tries = 0; tries < 60 && (int)out.size() < want; ++tries) {
        int kind = (int)r.range(0, 17); int i = (int)r.range(0, ns - 1); int j = (int)r.range(0, ns - 1);
        const SiteSpec& A = b.S(i); const SiteSpec& Bs = b.S(j);
        int o1 = (int)r.range(0, A.norb - 1); int s1 = (int)r.range(0, A.nspin - 1); int o2 = (int)r.range(0, Bs.norb - 1); int sb = (int)r.range(0, Bs.nspin - 1);
        cd x1 = V.real(); cd x2 = V.real(); cd x3 = V.real(); cd x4 = V.real(); cd t = V.amp();
        Ingredient g;
        switch (kind) {
        case 0: g.name = "addCoulombS"; g.f = [=](Builder& B) { B.addCoulombS(i, x1, x2); }; break;
        case 1: { if (sP.empty()) continue; int q = r.pick(sP); g.name = "addCoulombP4"; g.f = [=](Builder& B) { B.addCoulombP4(q, x1, x2, x3, x4); }; break; }
        case 2: { if (sP.empty()) continue; int q = r.pick(sP); g.name = "addCoulombP3"; g.f = [=](Builder& B) { B.addCoulombP3(q, x1, x2, x3); }; break; }
        case 3: { if (s2.empty()) continue; int q = r.pick(s2); g.name = "addMagnetization"; g.f = [=](Builder& B) { B.addMagnetization(q, x1); }; break; }
        case 4: g.name = "addLevel"; g.f = [=](Builder& B) { B.addLevel(i, x1); }; break;
        case 5: { if (pairs2.empty()) continue; std::pair<int, int> q = r.pick(pairs2); g.name = "addSzSz"; g.f = [=](Builder& B) { B.addSzSz(q.first, q.second, x1); }; break; }
        case 6: { if (pairs2.empty()) continue; std::pair<int, int> q = r.pick(pairs2); g.name = "addSS"; g.f = [=](Builder& B) { B.addSS(q.first, q.second, x1); }; break; }
        case 7: g.name = "addHopping7"; g.f = [=](Builder& B) { B.addHopping7(i, j, t, o1, o2, s1, sb); }; break;
        case 8: { int s = (int)r.range(0, std::min(A.nspin, Bs.nspin) - 1); g.name = "addHopping6"; g.f = [=](Builder& B) { B.addHopping6(i, j, t, o1, o2, s); }; break; }
        case 9: if (A.nspin != Bs.nspin) continue; g.name = "addHopping5"; g.f = [=](Builder& B) { B.addHopping5(i, j, t, o1, o2); }; break;
        case 10: { std::pair<int, int> q = r.pick(pairsShape); g.name = "addHopping4"; g.f = [=](Builder& B) { B.addHopping4(q.first, q.second, t); }; break; }
        case 11: g.name = "NupNdown7"; g.f = [=](Builder& B) { B.tNN7(i, j, x1, o1, o2, s1, sb); }; break;
        case 12: g.name = "Level"; g.f = [=](Builder& B) { B.tLevel(i, x1, o1, s1); }; break;
        case 13: {   // Spinflip / PairHopping with the Hermitian conjugate
            if (sP.empty()) continue; int q = r.pick(sP); const SiteSpec& Q = b.S(q);
            int a = (int)r.range(0, Q.norb - 1); int a2 = other(r, Q.norb, a); int z = (int)r.range(0, Q.nspin - 1); int z2 = other(r, Q.nspin, z);
            if (r.coin()) { g.name = "Spinflip+hc"; g.f = [=](Builder& B) { B.tSpinflip(q, x1, a, a2, z, z2, false); B.tSpinflip(q, x1, a, a2, z2, z, false); }; }
            else { g.name = "PairHopping+hc"; g.f = [=](Builder& B) { B.tPairHopping(q, x1, a, a2, z, z2, false); B.tPairHopping(q, x1, a2, a, z, z2, false); }; }
            break;
        }
        case 14: {   // S+S- + S-S+ by the Term factories
            if (A.nspin < 2 || Bs.nspin < 2) continue; int o = (int)r.range(0, std::min(A.norb, Bs.norb) - 1);
            g.name = "SplusSminus+SminusSplus"; g.f = [=](Builder& B) { B.tSpSm(i, j, x1, o); B.tSmSp(i, j, x1, o); }; break;
        }
        default: {   // raw user term + h.c.
            static const char* cl[] = {"plain", "plain", "non-conserving", "repeated-factor", "partial-product-vanishes"};
            int n = 2 * (int)r.range(1, 3); std::string cls = cl[r.range(0, 4)];
            if (cls == "partial-product-vanishes" && n == 2) n = 4;
            Seq s = gen_class(r, N, n, cls); if (s.empty()) continue;
            cd uv = V.amp(false); g.name = "user+hc:" + cls; g.f = [=](Builder& B) { B.raw_hc(s, uv); };
            break;
        }
        }
        out.push_back(g);
    }
    return out;
}

// ------------------------------------------------------------------------------------------------ observation
void worst(const CMat& A, const CMat& B, long& wi, long& wj, double& d) {
    d = -1; wi = wj = 0;
    for (long i = 0; i < A.rows(); ++i) for (long j = 0; j < A.cols(); ++j) { double x = std::abs(A(i, j) - B(i, j)); if (!(x <= d)) { d = x; wi = i; wj = j; } }
}
double herm_defect(const CMat& A) { return A.size() ? (A - A.adjoint()).cwiseAbs().maxCoeff() : 0.0; }

struct Obs {
    CMat Href, Ha, Hb; double sumabs = 0, tol = 0; bool idx_ok = true, shape_ok = true; long nmono = 0, nb = 0, total = 0;
    std::string callseq;
};
// documented operator + the two observations of the library for the terms currently in p.L
Obs observe(Pipeline& p, const Builder& b) {
    Obs o; const int N = p.N; const long dim = p.dim;
    o.Href = jw_matrix(N, b.ref);
    for (auto& t : b.ref) o.sumabs += std::abs(t.val);
    o.tol = 1e-12 * o.sumabs + 1e-14;
    for (size_t k = 0; k < b.calls.a.size() && k < 4; ++k) o.callseq += (k ? "; " : "") + b.calls.a[k].s;
    if (b.calls.a.size() > 4) o.callseq += "; ... (" + std::to_string(b.calls.a.size()) + " calls, see model.calls)";
    // (a) IndexHamiltonian monomials
    p.rebuild_storage();
    Terms mono;
    for (Pomerol::Operator::const_iterator it = p.Storage->begin(); it != p.Storage->end(); ++it) {
        RefTerm t; t.val = to_cd(it->second); ++o.nmono;
        for (size_t q = 0; q < it->first.size(); ++q) {
            FOp f; f.dag = boost::get<0>(it->first[q]) == Pomerol::Operator::creation; long ix = (long)boost::get<1>(it->first[q]);
            if (ix < 0 || ix >= N) { o.idx_ok = false; ix = 0; }
            f.idx = (int)ix; t.ops.push_back(f);
        }
        mono.push_back(t);
    }
    o.Ha = jw_matrix(N, mono);
    // (b) block matrix with symmetries ignored
    p.build_states(PM_IGNORE);
    p.build_hamiltonian(false);
    o.Hb = CMat::Zero(dim, dim); o.nb = p.nblocks();
    for (long blk = 0; blk < o.nb; ++blk) {
        const std::vector<Pomerol::FockState>& st = p.S->getFockStates(Pomerol::BlockNumber((int)blk));
        const Pomerol::MatrixType& M = p.H->getPart(Pomerol::BlockNumber((int)blk)).getMatrix();
        const long sz = (long)st.size(); o.total += sz;
        if (M.rows() != sz || M.cols() != sz) { o.shape_ok = false; continue; }
        for (long l = 0; l < sz; ++l) for (long q = 0; q < sz; ++q) {
            unsigned long a = st[(size_t)l].to_ulong(), bq = st[(size_t)q].to_ulong();
            if ((long)a >= dim || (long)bq >= dim) { o.shape_ok = false; continue; }
            o.Hb((long)a, (long)bq) = to_cd(M(l, q));
        }
    }
    o.shape_ok = o.shape_ok && o.total == dim && o.nb == 1;
    return o;
}

long presets_ncases(const std::string& tier) {
    long S = (long)schedule().size();
    long target = tier == "thorough" ? 40000 : 2000;
    return ((target + S - 1) / S) * S;
}

void presets_run(Ctx& c) {
    Rng& r = c.rng;
    const std::vector<Entry>& sch = schedule();
    const Entry& e = sch[(size_t)(c.k % (long)sch.size())];
    const bool quick = !c.thorough();
    int maxN = quick ? 6 : 8; const int B = maxN;
    static const char* pcs[] = {"generic", "generic", "generic", "integers", "integers", "negative", "zero-mix", "zero-mix"};
    Vals V{r, pcs[r.range(0, 7)]};

    // ---- lattice
    std::vector<Shape> forced = shapes_for(e, r, B, maxN, quick);
    const bool all2 = e.kind == "su2";
    const int need = e.kind == "user-term" ? (e.name == "6" ? 4 : 3) : (e.kind == "sum" ? 2 : 1);
    ModelSpec spec;
    for (int tries = 0; tries < 50; ++tries) { spec.sites = make_sites(r, maxN, forced, all2, need); if (spec.nmodes() >= need) break; }
    if (spec.nmodes() < need) { SiteSpec s; s.label = "A"; s.norb = 2; s.nspin = 2; spec.sites.assign(1, s); }
    spec.pclass = V.pclass;
    bool same_spins = true; for (auto& s : spec.sites) same_spins = same_spins && s.nspin == spec.sites[0].nspin;
    bool sm = r.coin(0.3); spec.spin_major = sm && same_spins;
    Pipeline p; p.build_lattice(spec);
    const int N = p.N; const long dim = p.dim;
    Builder b(p);

    // ---- ingredients
    std::vector<Ingredient> ings;
    if (e.kind == "user-term") apply_user(e, b, r, V, c.features);
    else if (e.kind == "sum") {
        ings = gen_sum(b, r, V);
        J kinds = J::arr(); for (auto& g : ings) { g.f(b); kinds.push(g.name); }
        c.features.set("ingredients", kinds).set("n_ingredients", (long)ings.size());
    }
    else apply_single(e, b, r, V, c.features);
    const bool is_sum = e.kind == "sum";

    const std::string site = is_sum ? std::string("sum")
                           : e.kind == "su2" ? (e.name == "kanamori" ? std::string("preset:addCoulombP3:spins2") : "preset:addSS:" + e.var)
                           : e.kind + ":" + e.name + ":" + e.var;
    c.model = spec.describe(); c.model.set("kind", e.kind).set("entry", e.name + ":" + e.var).set("calls", b.calls);
    c.canon = c.model.str();
    c.features.set("kind", e.kind).set("entry", e.kind + ":" + e.name + ":" + e.var).set("N", N).set("nsites", (long)spec.sites.size()).set("pclass", V.pclass).set("spin_major", spec.spin_major).set("refused", b.refused);

    // a preset that rejects an input it documents (only addCoulombP on 1 orbital / 1 spin is allowed to: the formula degenerates there)
    const bool may_refuse = e.kind == "preset" && e.name == "addCoulombP";
    if (b.refused) c.count("refused:" + e.name);
    if (!may_refuse) c.check("accepted", "C04:accepted:" + site, !b.refused, [&] { return "documented input rejected: " + b.refusal; });

    // ---- documented operator and the two observations
    Obs o = observe(p, b);
    const double tol = o.tol;
    const double refmax = o.Href.size() ? o.Href.cwiseAbs().maxCoeff() : 0.0;
    c.features.set("ref_terms", (long)b.ref.size()).set("ref_max", refmax).set("monomials", o.nmono);
    auto label = [&](long s) { std::string t; for (int i = 0; i < N; ++i) t += ((s >> i) & 1) ? '1' : '0'; return t; };
    c.check("indexhamiltonian", "C04:indexhamiltonian:index-range:" + site, o.idx_ok, [&] { return "a monomial of IndexHamiltonian refers to a mode >= N; calls: " + o.callseq; });
    c.check("blockmatrix", "C04:blockmatrix:shape", o.shape_ok, [&] { return std::to_string(o.nb) + " blocks with " + std::to_string(o.total) + " states for 2^N=" + std::to_string(dim) + " (symmetries ignored)"; });

    const bool herm_single = e.kind == "preset" || e.kind == "su2";   // every LatticePresets::add* documents a self-adjoint operator
    const bool herm_expected = is_sum || herm_single;
    const char* routes[2] = {"indexhamiltonian", "blockmatrix"};
    const char* rdesc[2] = {"sum of IndexHamiltonian monomials", "HamiltonianPart::getMatrix"};
    auto cmp_route = [&](int rt, const std::string& key_site, const Obs& ob, const std::string& pre) {
        const CMat& H = rt == 0 ? ob.Ha : ob.Hb; long wi, wj; double d; worst(H, ob.Href, wi, wj, d);
        return c.cmp(routes[rt], std::string("C04:") + routes[rt] + ":" + key_site, H(wi, wj), ob.Href(wi, wj), ob.tol,
                     [&] { return pre + "<" + label(wi) + "|H|" + label(wj) + "> (bit i = mode i) of " + rdesc[rt] + " vs documented operator, N=" + si(N) + "; calls: " + ob.callseq + ";"; });
    };
    auto herm_route = [&](int rt, const std::string& key_site, const Obs& ob, const std::string& pre) {
        return c.cmp("hermitian", std::string("C04:hermitian:") + routes[rt] + ":" + key_site, herm_defect(rt == 0 ? ob.Ha : ob.Hb), 0.0, ob.tol,
                     [&] { return pre + "max |H - H^+| of " + rdesc[rt] + " (every term was added together with its h.c.); calls: " + ob.callseq + ";"; });
    };
    if (herm_expected)
        c.cmp("selfcheck", "C04:selfcheck:documented-operator-hermitian:" + site, herm_defect(o.Href), 0.0, tol, [&] { return "the transcribed documented operator is not self-adjoint (harness/doc problem); calls: " + o.callseq + ";"; });

    if (!is_sum) {
        cmp_route(0, site, o, ""); cmp_route(1, site, o, "");
        if (herm_expected) { herm_route(0, site, o, ""); herm_route(1, site, o, ""); }
    } else {
        // A deviating sum is attributed: every ingredient is replayed alone on the same lattice.  An ingredient that deviates alone gets
        // "sum:ingredient:<name>"; what the ingredients do not explain (residual of the sum minus the residuals of the parts) gets "sum:interaction".
        bool dev[2], nh[2]; bool any = false;
        for (int rt = 0; rt < 2; ++rt) {
            const CMat& H = rt == 0 ? o.Ha : o.Hb;
            dev[rt] = !((H - o.Href).cwiseAbs().maxCoeff() <= tol); nh[rt] = !(herm_defect(H) <= tol); any = any || dev[rt] || nh[rt];
        }
        if (!any) { for (int rt = 0; rt < 2; ++rt) { cmp_route(rt, "sum", o, ""); herm_route(rt, "sum", o, ""); } }
        else {
            c.count("sum_attributions");
            CMat Ra = o.Ha - o.Href, Rb = o.Hb - o.Href; size_t before = c.viol.size();
            for (size_t g = 0; g < ings.size(); ++g) {
                Pipeline q; q.build_lattice(spec); Builder bq(q); ings[g].f(bq);
                Obs oq = observe(q, bq);
                Ra -= oq.Ha - oq.Href; Rb -= oq.Hb - oq.Href;
                const std::string pre = "in a sum of " + std::to_string(ings.size()) + " ingredients, ingredient #" + std::to_string(g) + " alone: ";
                for (int rt = 0; rt < 2; ++rt) {
                    if (dev[rt]) cmp_route(rt, "sum:ingredient:" + ings[g].name, oq, pre);
                    if (nh[rt]) herm_route(rt, "sum:ingredient:" + ings[g].name, oq, pre);
                }
            }
            for (int rt = 0; rt < 2; ++rt) if (dev[rt]) {
                const CMat& R = rt == 0 ? Ra : Rb;
                c.cmp(routes[rt], std::string("C04:") + routes[rt] + ":sum:interaction", R.cwiseAbs().maxCoeff(), 0.0, tol * double(ings.size() + 1),
                      [&] { return std::string("max |(H_lib - H_doc)(sum) - sum_i (H_lib - H_doc)(ingredient i alone)| of ") + rdesc[rt] + "; calls: " + o.callseq + ";"; });
            }
            if (c.viol.size() == before) { for (int rt = 0; rt < 2; ++rt) { cmp_route(rt, "sum", o, "(not attributed) "); herm_route(rt, "sum", o, "(not attributed) "); } }
        }
    }

    // ---- SU(2): [H, S+-_total] = 0 for Kanamori (U' = U - 2J) and for the spin-spin exchange
    bool all_two = true; for (auto& s : spec.sites) all_two = all_two && s.nspin == 2;
    const bool su2_subject = all_two && !b.refused && (e.kind == "su2" || (e.kind == "preset" && ((e.name == "addCoulombP3" && e.var == "spins2") || e.name == "addSS")));
    if (su2_subject) {
        Terms sp, sm_;
        for (int s = 0; s < (int)spec.sites.size(); ++s) for (int a = 0; a < spec.sites[(size_t)s].norb; ++a) {
            RefTerm t; t.val = 1; t.ops.push_back(b.Cd(s, a, UP)); t.ops.push_back(b.C(s, a, DN)); sp.push_back(t);
            RefTerm u; u.val = 1; u.ops.push_back(b.Cd(s, a, DN)); u.ops.push_back(b.C(s, a, UP)); sm_.push_back(u);
        }
        const CMat Sp = jw_matrix(N, sp), Sm = jw_matrix(N, sm_);
        const std::string what = (e.name == "kanamori" || e.name == "addCoulombP3") ? std::string("kanamori") : "SS:" + e.var;
        const double ctol = 1e-12 * o.Href.norm() * Sp.norm() + 1e-14;
        auto comm = [&](const CMat& H, const CMat& S) { return (H * S - S * H).cwiseAbs().maxCoeff(); };
        c.cmp("selfcheck", "C04:selfcheck:documented-operator-su2:" + what, std::max(comm(o.Href, Sp), comm(o.Href, Sm)), 0.0, ctol, [&] { return "the transcribed documented operator does not commute with S+-_total (harness/doc problem); calls: " + o.callseq + ";"; });
        c.cmp("su2", "C04:su2:" + what + ":indexhamiltonian:S+", comm(o.Ha, Sp), 0.0, ctol, [&] { return "max |[H, S+_total]|, H from IndexHamiltonian; calls: " + o.callseq + ";"; });
        c.cmp("su2", "C04:su2:" + what + ":indexhamiltonian:S-", comm(o.Ha, Sm), 0.0, ctol, [&] { return "max |[H, S-_total]|, H from IndexHamiltonian; calls: " + o.callseq + ";"; });
        c.cmp("su2", "C04:su2:" + what + ":blockmatrix:S+", comm(o.Hb, Sp), 0.0, ctol, [&] { return "max |[H, S+_total]|, H from HamiltonianPart::getMatrix; calls: " + o.callseq + ";"; });
        c.cmp("su2", "C04:su2:" + what + ":blockmatrix:S-", comm(o.Hb, Sm), 0.0, ctol, [&] { return "max |[H, S-_total]|, H from HamiltonianPart::getMatrix; calls: " + o.callseq + ";"; });
        c.count("su2_cases");
    }

    bool offdiag = false; for (long i = 0; i < dim && !offdiag; ++i) for (long j = 0; j < dim; ++j) if (i != j && o.Href(i, j) != cd(0, 0)) { offdiag = true; break; }
    // a raw term with non-zero amplitude whose product vanishes by the Pauli principle: the zero operator is the (meaningful) documented result
    bool pauli_zero_term = false;
    for (auto& t : b.ref) if (t.val != cd(0, 0) && !pauli_zero_term) {
        bool nz = false;
        for (long st = 0; st < dim && !nz; ++st) { uint64_t x = (uint64_t)st; int sg = 1; nz = jw_apply(t.ops, x, sg); }
        pauli_zero_term = !nz;
    }
    c.features.set("offdiag", offdiag).set("hermitian_expected", herm_expected).set("pauli_zero_term", pauli_zero_term);
    c.count("lib_calls", (long)b.calls.a.size()); c.count("monomials", o.nmono);
    // rule: N >= 2 and (the documented operator is non-zero, or the input contains a term with non-zero amplitude that vanishes by Pauli)
    c.nontrivial = N >= 2 && (refmax > 0 || pauli_zero_term);
}

}  // namespace

VH_DRIVER(presets, presets_ncases, presets_run);
