// C20 - lattice input is validated and looked up faithfully.
// Random call histories over one Pomerol::Lattice, checked step by step against a small sequential reference model
// (label -> (orbitals, spins); per-order list of accepted terms in insertion order).
#include "common/vh.hpp"
#include "common/jw.hpp"
#include "common/isolate.hpp"
#include <algorithm>
#include <fcntl.h>
#include <unistd.h>

using namespace vh;

namespace {

typedef Pomerol::Lattice Lat;
typedef Pomerol::Lattice::Term LTerm;
typedef Pomerol::Lattice::Term::Presets TP;
typedef Pomerol::LatticePresets LP;
typedef unsigned short us;

const int kUp = 1, kDown = 0;   // documented: enum spin {down, up}

// ------------------------------------------------------------------------------------------------ reference model
struct MTerm {
    unsigned order = 0;                       // what getOrder() says
    std::vector<int> seq; std::vector<std::string> lab; std::vector<int> orb, spin; cd val = 0;
    bool operator==(const MTerm& o) const { return order == o.order && seq == o.seq && lab == o.lab && orb == o.orb && spin == o.spin && val == o.val; }
    bool operator!=(const MTerm& o) const { return !(*this == o); }
};
std::string q(const std::string& s) { return "\"" + s + "\""; }
std::string term_text(const MTerm& t) {
    std::string s = fmt(t.val) + "*";
    size_t n = std::max(std::max(t.seq.size(), t.lab.size()), std::max(t.orb.size(), t.spin.size()));
    for (size_t k = 0; k < n; ++k) {
        s += (k < t.seq.size() ? (t.seq[k] ? "c+(" : "c(") : "?(");
        s += (k < t.lab.size() ? q(t.lab[k]) : std::string("?")) + "," + (k < t.orb.size() ? std::to_string(t.orb[k]) : std::string("?")) + "," + (k < t.spin.size() ? std::to_string(t.spin[k]) : std::string("?")) + ")";
    }
    if (n != t.order) s += "[order=" + std::to_string(t.order) + "]";
    return s;
}
MTerm read_term(const LTerm& T) {
    MTerm m; m.order = T.getOrder();
    for (size_t k = 0; k < T.OperatorSequence.size(); ++k) m.seq.push_back(T.OperatorSequence[k] ? 1 : 0);
    for (size_t k = 0; k < T.SiteLabels.size(); ++k) m.lab.push_back(T.SiteLabels[k]);
    for (size_t k = 0; k < T.Orbitals.size(); ++k) m.orb.push_back((int)T.Orbitals[k]);
    for (size_t k = 0; k < T.Spins.size(); ++k) m.spin.push_back((int)T.Spins[k]);
    m.val = to_cd(T.Value);
    return m;
}

struct Model {
    std::map<std::string, std::pair<int, int>> sites;          // label -> (orbitals, spins)
    std::map<unsigned, std::vector<MTerm>> terms;              // only non-empty lists are kept
    bool known(const std::string& l) const { return sites.count(l) != 0; }
    unsigned max_nonempty() const { unsigned m = 0; for (auto& kv : terms) if (!kv.second.empty()) m = std::max(m, kv.first); return m; }
    size_t nterms() const { size_t n = 0; for (auto& kv : terms) n += kv.second.size(); return n; }
    void add_term(const MTerm& t) { terms[t.order].push_back(t); }
    std::string sites_text() const {
        std::string s = "{"; bool first = true;
        for (auto& kv : sites) { if (!first) s += ", "; first = false; s += q(kv.first) + ":" + std::to_string(kv.second.first) + "orb x" + std::to_string(kv.second.second) + "spin"; }
        return s + "}";
    }
};
bool same_terms(const Model& a, const Model& b) {
    for (auto& kv : a.terms) { auto it = b.terms.find(kv.first); if (it == b.terms.end()) { if (!kv.second.empty()) return false; } else if (kv.second != it->second) return false; }
    for (auto& kv : b.terms) { auto it = a.terms.find(kv.first); if (it == a.terms.end() && !kv.second.empty()) return false; }
    return true;
}
bool same(const Model& a, const Model& b) { return a.sites == b.sites && same_terms(a, b); }
std::string diff_text(const Model& lib, const Model& ref) {
    std::string s;
    if (lib.sites != ref.sites) s += "sites: lattice " + lib.sites_text() + " vs reference " + ref.sites_text() + "; ";
    std::set<unsigned> orders; for (auto& kv : lib.terms) orders.insert(kv.first); for (auto& kv : ref.terms) orders.insert(kv.first);
    static const std::vector<MTerm> none;
    for (unsigned n : orders) {
        auto il = lib.terms.find(n), ir = ref.terms.find(n);
        const std::vector<MTerm>& A = il == lib.terms.end() ? none : il->second; const std::vector<MTerm>& B = ir == ref.terms.end() ? none : ir->second;
        if (A == B) continue;
        s += "order " + std::to_string(n) + ": lattice has " + std::to_string(A.size()) + " terms, reference " + std::to_string(B.size());
        size_t k = 0; while (k < A.size() && k < B.size() && A[k] == B[k]) ++k;
        s += ", first difference at position " + std::to_string(k) + " (lattice: " + (k < A.size() ? term_text(A[k]) : std::string("-")) + ", reference: " + (k < B.size() ? term_text(B[k]) : std::string("-")) + "); ";
    }
    return s.empty() ? "no difference" : s;
}
// "" if every factor of t references an existing (label, orbital < OrbitalSize, spin < SpinSize)
std::string index_defect(const Model& m, const MTerm& t) {
    if (t.seq.size() != t.order || t.lab.size() != t.order || t.orb.size() != t.order || t.spin.size() != t.order) return "arrays do not have getOrder() entries";
    for (size_t k = 0; k < t.lab.size(); ++k) {
        auto it = m.sites.find(t.lab[k]);
        if (it == m.sites.end()) return "factor " + std::to_string(k) + " names unknown site " + q(t.lab[k]);
        if (t.orb[k] >= it->second.first) return "factor " + std::to_string(k) + " has orbital " + std::to_string(t.orb[k]) + " on site " + q(t.lab[k]) + " with " + std::to_string(it->second.first) + " orbital(s)";
        if (t.spin[k] >= it->second.second) return "factor " + std::to_string(k) + " has spin " + std::to_string(t.spin[k]) + " on site " + q(t.lab[k]) + " with " + std::to_string(it->second.second) + " spin(s)";
    }
    return "";
}

// ------------------------------------------------------------------------------------------------ observation of the real lattice
struct Snap { Model m; unsigned lib_max = 0; std::string inconsistency; };
Snap snapshot(const Lat& L, unsigned at_least) {
    Snap s;
    const Lat::SiteMap& sm = L.getSiteMap();
    for (Lat::SiteMap::const_iterator it = sm.begin(); it != sm.end(); ++it) {
        if (!it->second) { s.inconsistency += "site map entry " + q(it->first) + " is a null pointer; "; continue; }
        s.m.sites[it->first] = std::make_pair((int)it->second->OrbitalSize, (int)it->second->SpinSize);
        if (it->second->Label != it->first) s.inconsistency += "site map key " + q(it->first) + " holds a site labelled " + q(it->second->Label) + "; ";
    }
    const Lat::TermStorage& ts = L.getTermStorage();
    s.lib_max = ts.getMaxTermOrder();
    unsigned upto = std::max(std::max(s.lib_max, at_least), 6u) + 2;   // independent of what getMaxTermOrder() claims: the generator uses orders <= 6
    if (upto > 64) upto = 64;
    for (unsigned n = 0; n <= upto; ++n) {
        const Lat::TermList& tl = ts.getTerms(n);
        for (Lat::TermList::const_iterator it = tl.begin(); it != tl.end(); ++it) {
            if (!*it) { s.inconsistency += "null term pointer in list of order " + std::to_string(n) + "; "; continue; }
            MTerm t = read_term(**it);
            if (t.order != n) s.inconsistency += "term " + term_text(t) + " with getOrder()=" + std::to_string(t.order) + " is stored in the list of order " + std::to_string(n) + "; ";
            s.m.terms[n].push_back(t);
        }
    }
    return s;
}

struct Exec { bool threw = false; std::string etype; };
template <class F> Exec guarded(F&& f) {
    Exec e;
    try { f(); }
    catch (const Lat::exWrongLabel&) { e.threw = true; e.etype = "exWrongLabel"; }
    catch (const TP::exWrongIndices&) { e.threw = true; e.etype = "exWrongIndices"; }
    catch (const std::exception& x) { e.threw = true; e.etype = std::string("std::exception:") + x.what(); }
    catch (...) { e.threw = true; e.etype = "non-std"; }
    return e;
}

std::string join(const std::vector<std::string>& v, const char* sep) { std::string s; for (size_t i = 0; i < v.size(); ++i) { if (i) s += sep; s += v[i]; } return s; }

// ------------------------------------------------------------------------------------------------ the history runner
enum Cls { VALID = 0, INVALID = 1, ZERO = 2, ZEROINV = 3 };
const char* cls_name(int c) { static const char* n[] = {"valid", "invalid", "zero-amplitude", "zero-amplitude+invalid"}; return n[c]; }

struct Call {
    std::string api, desc, kind; Cls cls = VALID;
    enum Effect { PRESET, RAW_TERM, ADD_SITE } effect = PRESET;
    MTerm term;                                   // RAW_TERM: what has to be appended when valid
    std::string site_label; int site_orb = 0, site_spin = 0;   // ADD_SITE
    std::function<void(Lat&)> fn;
};

struct Hist {
    Ctx& c; Rng& r;
    Lat L; Model model;
    J steps = J::arr(); std::string canon;
    int step = 0; long n_valid = 0, n_invalid = 0, n_accepted_valid = 0, n_rejected_invalid = 0, n_iso = 0, n_resync = 0, n_copies = 0;
    std::vector<std::string> pool;
    static constexpr const char* kResync = " [after a mismatch the reference model is re-synchronised with the real lattice, later steps are still checked]";

    explicit Hist(Ctx& c_) : c(c_), r(c_.rng) {
        const char* p[] = {"A", "B", "a", "AA", "A ", "", " ", "x y", "x  y", "Z9", "Z8", "0",
                           "site_with_a_rather_long_label_0001", "site_with_a_rather_long_label_0002",
                           "site_with_a_rather_long_label_0001 and a tail that does not fit into any small-string buffer ........ 0001",
                           "site_with_a_rather_long_label_0001 and a tail that does not fit into any small-string buffer ........ 0002"};
        for (const char* s : p) pool.push_back(s);
    }
    std::string where(const std::string& desc) const { return "step " + std::to_string(step) + ": " + desc + " on a lattice with sites " + model.sites_text() + " and " + std::to_string(model.nterms()) + " stored terms"; }
    void record(const std::string& api, const std::string& desc, const std::string& cls, const std::string& kind, const std::string& outcome) {
        J j = J::obj().set("i", step).set("api", api).set("call", desc).set("class", cls);
        if (!kind.empty()) j.set("invalid", kind);
        j.set("outcome", outcome);
        steps.push(j);
        if (!canon.empty()) canon += ";";
        canon += desc;
        c.count("api:" + api);
    }

    // ---------------------------------------------------------------- random ingredients
    std::vector<std::string> known_labels() const { std::vector<std::string> v; for (auto& kv : model.sites) v.push_back(kv.first); return v; }
    std::string unknown_label() {
        std::vector<std::string> kn = known_labels();
        if (!kn.empty() && r.coin(0.35)) {                       // near miss of an existing label
            std::string l = r.pick(kn); int how = (int)r.range(0, 3);
            std::string m = l;
            if (how == 0) m = l + " ";
            else if (how == 1 && !l.empty()) m = l.substr(0, l.size() - 1);
            else if (how == 2 && !l.empty()) { m = l; m[m.size() - 1] = (char)(m[m.size() - 1] == 'x' ? 'y' : 'x'); }
            else m = l + l;
            if (!model.known(m)) return m;
        }
        std::vector<std::string> cand; for (auto& l : pool) if (!model.known(l)) cand.push_back(l);
        return r.pick(cand);                                     // at most 6 sites, 16 pool labels: never empty
    }
    std::string some_label(double p_known) {
        std::vector<std::string> kn = known_labels();
        if (!kn.empty() && r.coin(p_known)) return r.pick(kn);
        return unknown_label();
    }
    double nz() { double x = r.sym(2.0); if (std::abs(x) < 0.05) x = (x < 0 ? -0.05 : 0.05); return x; }
    cd cval() { double re = nz(), im = r.sym(1.0); return kComplexBuild ? cd(re, im) : cd(re, 0); }     // both drawn in every flavour
    double pval() { bool z = r.coin(0.08); double x = nz(); return z ? 0.0 : x; }                          // preset amplitude, sometimes zero
    int too_big(int size) { static const int add[] = {0, 0, 1, 3, 60000}; return size + add[r.range(0, 4)]; }

    // ---------------------------------------------------------------- generic evaluation of a mutating call
    void apply(Call& k) {
        ++step;
        const bool invalid_like = (k.cls != VALID);
        if (k.cls == VALID) ++n_valid; else if (k.cls == INVALID) ++n_invalid;
        c.count(std::string("class:") + cls_name(k.cls));
        if (k.cls == INVALID || k.cls == ZEROINV) c.count("invalid:" + k.api + ":" + k.kind);
        std::string ctx = where(k.desc);
        // calls that the library is expected to refuse are first tried in a forked child: a crash becomes an observation of this call
        if (invalid_like) {
            ++n_iso;
            IsoResult ir = run_isolated([&]() -> std::string { Exec e = guarded([&] { k.fn(L); }); return e.threw ? "THROW:" + e.etype : "OK"; }, 20);
            bool alive = ir.exited && ir.exit_code == 0;
            c.check("no-crash", "C20:crash:" + k.api + ":" + (k.kind.empty() ? cls_name(k.cls) : k.kind), alive,
                    [&] { return ctx + " terminated the process (" + (ir.sig ? sig_name(ir.sig) : "exit code " + std::to_string(ir.exit_code)) + "); the call is skipped in the history"; });
            if (!alive) { record(k.api, k.desc, cls_name(k.cls), k.kind, "crash"); return; }
        }
        Exec ex = guarded([&] { k.fn(L); });
        if (ex.threw) c.count("exc:" + ex.etype);
        Snap s = snapshot(L, model.max_nonempty());
        c.check("storage-consistent", "C20:storage-inconsistent", s.inconsistency.empty(), [&] { return ctx + ": " + s.inconsistency; });
        c.check("max-order", "C20:getMaxTermOrder:after-call", s.lib_max == s.m.max_nonempty(),
                [&] { return ctx + ": getMaxTermOrder()=" + std::to_string(s.lib_max) + " but the largest order with stored terms is " + std::to_string(s.m.max_nonempty()); });
        const bool unchanged = same(s.m, model);
        // terms that are new w.r.t. the reference, provided the lists only grew by appending
        bool append_only = true; std::vector<MTerm> fresh;
        for (auto& kv : model.terms) {
            auto it = s.m.terms.find(kv.first);
            if (it == s.m.terms.end() || it->second.size() < kv.second.size() || !std::equal(kv.second.begin(), kv.second.end(), it->second.begin())) append_only = false;
        }
        if (append_only) for (auto& kv : s.m.terms) { auto it = model.terms.find(kv.first); size_t old = it == model.terms.end() ? 0 : it->second.size(); for (size_t i = old; i < kv.second.size(); ++i) fresh.push_back(kv.second[i]); }
        std::string outcome = ex.threw ? "threw " + ex.etype : "returned";
        outcome += unchanged ? ", lattice unchanged" : ", lattice changed (" + std::to_string(fresh.size()) + " new terms)";
        bool ok = true;
        switch (k.cls) {
        case INVALID:
            ok &= c.check("invalid-rejected", "C20:accepts-invalid:" + k.api + ":" + k.kind, ex.threw,
                          [&] { return ctx + " (invalid: " + k.kind + ") returned without an exception; " + (unchanged ? "lattice unchanged" : "lattice changed: " + diff_text(s.m, model)) + kResync; });
            if (ex.threw) {
                ++n_rejected_invalid;
                ok &= c.check("rejected-unchanged", "C20:rejected-but-changed:" + k.api + ":" + k.kind, unchanged,
                              [&] { return ctx + " (invalid: " + k.kind + ") threw " + ex.etype + " but left the lattice changed: " + diff_text(s.m, model) + kResync; });
            }
            break;
        case ZERO:
            if (ex.threw) c.count("zero_amplitude_term_threw");
            ok &= c.check("zero-ignored", "C20:zero-amplitude-not-ignored:" + k.api, unchanged, [&] { return ctx + " (zero amplitude) changed the lattice: " + diff_text(s.m, model) + kResync; });
            break;
        case ZEROINV:   // the property states both "rejected" and "ignored": either is fine, the lattice has to stay as it is
            ok &= c.check("zero-ignored", "C20:zero-amplitude-not-ignored:" + k.api + ":invalid-indices", unchanged, [&] { return ctx + " (zero amplitude, invalid: " + k.kind + ") changed the lattice: " + diff_text(s.m, model) + kResync; });
            break;
        case VALID: {
            bool acc = c.check("valid-accepted", "C20:valid-rejected:" + k.api, !ex.threw, [&] { return ctx + " (valid arguments) threw " + ex.etype + kResync; });
            ok &= acc; if (acc && k.effect != Call::ADD_SITE) ++n_accepted_valid;
            if (k.effect == Call::RAW_TERM) {
                Model want = model; want.add_term(k.term);
                ok &= c.check("addTerm-effect", "C20:addTerm-effect:order" + std::to_string(k.term.order), same(s.m, want),
                              [&] { return ctx + ": expected exactly this term appended to the list of order " + std::to_string(k.term.order) + "; " + diff_text(s.m, want) + kResync; });
            } else if (k.effect == Call::ADD_SITE) {
                Model want = model; want.sites[k.site_label] = std::make_pair(k.site_orb, k.site_spin);
                ok &= c.check("addSite-effect", "C20:addSite-effect", same(s.m, want), [&] { return ctx + ": " + diff_text(s.m, want) + kResync; });
            } else {
                ok &= c.check("preset-sites-unchanged", "C20:preset-changed-sites:" + k.api, s.m.sites == model.sites, [&] { return ctx + ": " + diff_text(s.m, model) + kResync; });
                ok &= c.check("preset-append-only", "C20:preset-not-append-only:" + k.api, append_only, [&] { return ctx + ": earlier terms were modified/removed/reordered: " + diff_text(s.m, model) + kResync; });
                long zeros = 0; for (auto& t : fresh) if (t.val == cd(0, 0)) ++zeros;
                if (zeros) c.count("observed:preset_stored_zero_valued_term:" + k.api, zeros);
            }
            break; }
        }
        // whatever the call was: nothing that got stored may point outside the lattice
        for (auto& t : fresh) {
            std::string d = index_defect(s.m, t);
            if (!c.check("stored-index-valid", "C20:stored-invalid-index:" + k.api, d.empty(), [&] { return ctx + " stored " + term_text(t) + ": " + d + kResync; })) { ok = false; break; }
        }
        if (!ok) { ++n_resync; c.count("resync"); }
        model = s.m;   // valid presets: adopt what was appended (its content is C04's subject); otherwise identical or a re-synchronisation
        record(k.api, k.desc, cls_name(k.cls), k.kind, outcome);
    }

    // ---------------------------------------------------------------- addSite
    void step_addSite() {
        std::vector<std::string> cand; for (auto& l : pool) if (!model.known(l)) cand.push_back(l);
        Call k; k.api = "addSite"; k.effect = Call::ADD_SITE; k.cls = VALID;
        k.site_label = r.pick(cand);
        static const int orbs[] = {1, 1, 1, 2, 2, 3}; static const int spins[] = {2, 2, 2, 2, 1, 1, 3};
        k.site_orb = orbs[r.range(0, 5)]; k.site_spin = spins[r.range(0, 6)];
        bool by_ptr = r.coin(0.3);
        std::string l = k.site_label; us o = (us)k.site_orb, z = (us)k.site_spin;
        k.desc = std::string(by_ptr ? "addSite(new Site(" : "addSite(") + q(l) + "," + std::to_string(o) + "," + std::to_string(z) + (by_ptr ? "))" : ")");
        if (by_ptr) k.fn = [l, o, z](Lat& X) { X.addSite(new Lat::Site(l, o, z)); };
        else if (z == 2 && o % 2 == 0) k.fn = [l, o](Lat& X) { X.addSite(l, o); };            // default argument spins=2
        else k.fn = [l, o, z](Lat& X) { X.addSite(l, o, z); };
        apply(k);
    }

    // ---------------------------------------------------------------- raw terms
    // classification of an arbitrary term against the reference model: list of (position, kind)
    void classify_term(const MTerm& t, Cls& cls, std::string& kind) const {
        std::vector<std::pair<size_t, std::string>> bad;
        for (size_t p = 0; p < t.lab.size(); ++p) {
            auto it = model.sites.find(t.lab[p]);
            if (it == model.sites.end()) { bad.push_back({p, "unknown-label"}); continue; }
            if (t.orb[p] >= it->second.first) bad.push_back({p, "orbital-range"});
            if (t.spin[p] >= it->second.second) bad.push_back({p, "spin-range"});
        }
        bool zero = (t.val == cd(0, 0));
        if (bad.empty()) { cls = zero ? ZERO : VALID; kind = ""; return; }
        cls = zero ? ZEROINV : INVALID;
        bool allsame = true; for (auto& b : bad) allsame = allsame && b.second == bad[0].second;
        if (bad.size() == 1) kind = bad[0].second + (bad[0].first == 0 ? ":first-factor" : (bad[0].first + 1 == t.lab.size() ? ":last-factor" : ":inner-factor"));
        else if (allsame) kind = bad[0].second + ":several-factors";
        else kind = "several-kinds";
    }
    MTerm gen_term_spec(int N, int want /*0 valid, 1 invalid, 2 zero, 3 zero+invalid*/) {
        MTerm t; t.order = (unsigned)N;
        int pat = (int)r.range(0, 2);
        for (int p = 0; p < N; ++p) {
            t.seq.push_back(pat == 0 ? (p < N / 2 ? 1 : 0) : (pat == 1 ? (p + 1) % 2 : (int)r.range(0, 1)));
            std::string l = some_label(1.0);          // unknown only if there is no site yet
            auto it = model.sites.find(l);
            t.lab.push_back(l);
            t.orb.push_back(it == model.sites.end() ? (int)r.range(0, 1) : (int)r.range(0, it->second.first - 1));
            t.spin.push_back(it == model.sites.end() ? (int)r.range(0, 1) : (int)r.range(0, it->second.second - 1));
        }
        if (want == 1 || want == 3) {
            int nd = r.coin(0.85) ? 1 : 2;
            for (int d = 0; d < nd; ++d) {
                size_t p = (size_t)r.range(0, N - 1); int what = (int)r.range(0, 2);
                auto it = model.sites.find(t.lab[p]);
                if (what == 0 || it == model.sites.end()) { t.lab[p] = unknown_label(); }
                else if (what == 1) t.orb[p] = too_big(it->second.first);
                else t.spin[p] = too_big(it->second.second);
            }
        }
        cd v = cval();
        t.val = (want >= 2) ? cd(0, 0) : v;
        return t;
    }
    static std::shared_ptr<LTerm> build_term(const MTerm& t, int how) {
        const unsigned N = t.order;
        if (how == 0) {
            std::shared_ptr<LTerm> T(new LTerm(N));
            for (unsigned p = 0; p < N; ++p) { T->OperatorSequence[p] = t.seq[p] != 0; T->SiteLabels[p] = t.lab[p]; T->Orbitals[p] = (us)t.orb[p]; T->Spins[p] = (us)t.spin[p]; }
            T->Value = to_melem(t.val);
            return T;
        }
        bool sq[8]; std::string lb[8]; us ob[8], sp[8];
        for (unsigned p = 0; p < N && p < 8; ++p) { sq[p] = t.seq[p] != 0; lb[p] = t.lab[p]; ob[p] = (us)t.orb[p]; sp[p] = (us)t.spin[p]; }
        return std::shared_ptr<LTerm>(new LTerm(N, sq, to_melem(t.val), lb, ob, sp));
    }
    // hand a library Term object to Lattice::addTerm; classification is made from the object itself
    void add_term_object(const std::shared_ptr<LTerm>& T, const std::string& origin) {
        Call k; k.api = "addTerm"; k.effect = Call::RAW_TERM;
        k.term = read_term(*T);
        classify_term(k.term, k.cls, k.kind);
        k.desc = "addTerm[" + origin + "](" + term_text(k.term) + ")";
        k.fn = [T](Lat& X) { X.addTerm(T.get()); };
        apply(k);
    }
    void step_raw(int want = -1) {
        if (want < 0) { double u = r.uni(); want = u < 0.42 ? 0 : (u < 0.84 ? 1 : (u < 0.95 ? 2 : 3)); }
        static const int orders[] = {2, 2, 4, 4, 4, 6};
        int N = orders[r.range(0, 5)];
        MTerm spec = gen_term_spec(N, want);
        int how = (int)r.range(0, 1);
        add_term_object(build_term(spec, how), how == 0 ? "Term(N)+fill" : "full ctor");
    }

    // ---------------------------------------------------------------- term factories
    struct XOp { bool dag; std::string lab; int orb, spin; };
    // operator equality on the Fock space spanned by the modes that occur in either expression
    void compare_factory(const std::string& name, const std::string& desc, const MTerm& got, const std::vector<XOp>& want, cd wval) {
        std::string ctx = where(desc);
        bool shape = got.seq.size() == got.order && got.lab.size() == got.order && got.orb.size() == got.order && got.spin.size() == got.order && got.order >= 1 && got.order <= 8;
        if (!c.check("factory-shape", "C20:factory-shape:" + name, shape, [&] { return ctx + " returned " + term_text(got); })) return;
        std::map<std::tuple<std::string, int, int>, int> modes;
        auto mode = [&](const std::string& l, int o, int z) { auto key = std::make_tuple(l, o, z); auto it = modes.find(key); if (it != modes.end()) return it->second; int id = (int)modes.size(); modes[key] = id; return id; };
        RefTerm a, b; a.val = got.val; b.val = wval;
        for (size_t p = 0; p < got.lab.size(); ++p) a.ops.push_back(FOp{got.seq[p] != 0, mode(got.lab[p], got.orb[p], got.spin[p])});
        for (auto& x : want) b.ops.push_back(FOp{x.dag, mode(x.lab, x.orb, x.spin)});
        int N = (int)modes.size();
        CMat A = jw_matrix(N, {a}), B = jw_matrix(N, {b});
        double d = (A - B).cwiseAbs().maxCoeff();
        c.cmp("factory-operator", "C20:factory-operator:" + name, d, 0.0, 1e-14 * (1 + std::abs(wval)), [&] {
            MTerm w; w.order = (unsigned)want.size(); for (auto& x : want) { w.seq.push_back(x.dag); w.lab.push_back(x.lab); w.orb.push_back(x.orb); w.spin.push_back(x.spin); } w.val = wval;
            return ctx + " returned " + term_text(got) + " which is not the documented operator " + term_text(w) + "; max |difference of Fock-space matrices|"; });
    }
    void step_factory() {
        ++step;
        int f = (int)r.range(0, 12);
        // labels: mostly existing ones so that the result can be handed to addTerm meaningfully
        std::string l1 = some_label(0.75), l2 = some_label(0.75);
        auto dims = [&](const std::string& l) { auto it = model.sites.find(l); return it == model.sites.end() ? std::make_pair(2, 2) : it->second; };
        auto idx = [&](int size) { return r.coin(0.85) ? (int)r.range(0, size - 1) : (int)r.range(0, size + 1); };
        int o1 = idx(dims(l1).first), o2 = idx(dims(f == 0 || f == 3 ? l2 : l1).first), s1 = idx(dims(l1).second), s2 = idx(dims(f == 0 || f == 3 ? l2 : l1).second);
        cd V = cval(); if (r.coin(0.06)) V = cd(0, 0);
        Pomerol::MelemType mv = to_melem(V); cd Vr = to_cd(mv);
        us O1 = (us)o1, O2 = (us)o2, S1 = (us)s1, S2 = (us)s2;
        std::string name, args; std::vector<XOp> want; std::function<LTerm*()> mk; std::string inv;
        auto A = [&](std::initializer_list<int> v) { std::string s; for (int x : v) s += "," + std::to_string(x); return s; };
        auto n_n = [&](const std::string& la, int oa, int sa, const std::string& lb, int ob, int sb) { want = {{true, la, oa, sa}, {false, la, oa, sa}, {true, lb, ob, sb}, {false, lb, ob, sb}}; };
        bool dflt = r.coin(0.3);
        switch (f) {
        case 0: name = "Hopping[o1,o2,s1,s2]"; args = q(l1) + "," + q(l2) + "," + fmt(Vr) + A({o1, o2, s1, s2}); want = {{true, l1, o1, s1}, {false, l2, o2, s2}};
            mk = [=] { return TP::Hopping(l1, l2, mv, O1, O2, S1, S2); }; break;
        case 1: name = "Hopping[o,s]"; args = q(l1) + "," + q(l2) + "," + fmt(Vr) + A({o1, s1}); want = {{true, l1, o1, s1}, {false, l2, o1, s1}};
            mk = [=] { return TP::Hopping(l1, l2, mv, O1, S1); }; break;
        case 2: name = "Level"; args = q(l1) + "," + fmt(Vr) + A({o1, s1}); want = {{true, l1, o1, s1}, {false, l1, o1, s1}};
            mk = [=] { return TP::Level(l1, mv, O1, S1); }; break;
        case 3: name = "NupNdown[l1,l2,o1,o2,s1,s2]"; args = q(l1) + "," + q(l2) + "," + fmt(Vr) + A({o1, o2, s1, s2}); n_n(l1, o1, s1, l2, o2, s2);
            mk = [=] { return TP::NupNdown(l1, l2, mv, O1, O2, S1, S2); }; break;
        case 4: name = "NupNdown[l,o1,o2,s1,s2]"; args = q(l1) + "," + fmt(Vr) + A({o1, o2, s1, s2}); n_n(l1, o1, s1, l1, o2, s2);
            mk = [=] { return TP::NupNdown(l1, mv, O1, O2, S1, S2); }; break;
        case 5: { name = "NupNdown[l,o1,o2]"; args = q(l1) + "," + fmt(Vr) + A({o1, o2}); n_n(l1, o1, kUp, l1, o2, kDown);
            // the 4-argument call is ambiguous with the defaulted overload; select the documented overload explicitly
            typedef LTerm* (*F4)(const std::string&, Pomerol::MelemType, us, us);
            F4 fp = static_cast<F4>(&TP::NupNdown);
            mk = [=] { return fp(l1, mv, O1, O2); }; break; }
        case 6: name = "NupNdown[l,o,s1=up,s2=down]";
            if (dflt) { args = q(l1) + "," + fmt(Vr) + A({o1}); n_n(l1, o1, kUp, l1, o1, kDown); mk = [=] { return TP::NupNdown(l1, mv, O1); }; }
            else { args = q(l1) + "," + fmt(Vr) + A({o1, s1, s2}); n_n(l1, o1, s1, l1, o1, s2); mk = [=] { return TP::NupNdown(l1, mv, O1, S1, S2); }; }
            break;
        case 7: case 8: {
            int dom = (int)r.range(0, 9);   // 0..5 within the documented domain, 6/7/8 each kind of violation of it, 9 as drawn
            if (dom <= 5 || dom == 7) { if (o2 == o1) o2 = o1 + 1; } else if (dom != 9) o2 = o1;
            if (dom <= 6) { if (s2 == s1) s2 = (s1 + 1) % 2; } else if (dom != 9) { s2 = s1; dflt = false; }
            O2 = (us)o2; S2 = (us)s2;
            bool sf = (f == 7); name = sf ? "Spinflip" : "PairHopping";
            int a = s1, b = s2;
            if (dflt) { a = kUp; b = kDown; args = q(l1) + "," + fmt(Vr) + A({o1, o2}); }
            else args = q(l1) + "," + fmt(Vr) + A({o1, o2, s1, s2});
            if (sf) want = {{true, l1, o1, a}, {true, l1, o2, b}, {false, l1, o2, a}, {false, l1, o1, b}};
            else want = {{true, l1, o1, a}, {true, l1, o1, b}, {false, l1, o2, a}, {false, l1, o2, b}};
            std::vector<std::string> facts; if (o1 == o2) facts.push_back("orbital1==orbital2"); if (a == b) facts.push_back("spin1==spin2"); inv = join(facts, "+");
            if (dflt) { if (sf) mk = [=] { return TP::Spinflip(l1, mv, O1, O2); }; else mk = [=] { return TP::PairHopping(l1, mv, O1, O2); }; }
            else { if (sf) mk = [=] { return TP::Spinflip(l1, mv, O1, O2, S1, S2); }; else mk = [=] { return TP::PairHopping(l1, mv, O1, O2, S1, S2); }; }
            break; }
        case 9: case 11: name = "SplusSminus"; args = q(l1) + "," + q(l2) + "," + fmt(Vr) + A({o1}); want = {{true, l1, o1, kUp}, {false, l1, o1, kDown}, {true, l2, o1, kDown}, {false, l2, o1, kUp}};
            mk = [=] { return TP::SplusSminus(l1, l2, mv, O1); }; break;
        default: name = "SminusSplus"; args = q(l1) + "," + q(l2) + "," + fmt(Vr) + A({o1}); want = {{true, l1, o1, kDown}, {false, l1, o1, kUp}, {true, l2, o1, kUp}, {false, l2, o1, kDown}};
            mk = [=] { return TP::SminusSplus(l1, l2, mv, O1); }; break;
        }
        std::string api = "Term::Presets::" + name, desc = name + "(" + args + ")";
        std::string ctx = where(desc);
        LTerm* raw = nullptr;
        Exec ex = guarded([&] { raw = mk(); });
        std::shared_ptr<LTerm> T(raw);
        if (ex.threw) c.count("exc:" + ex.etype);
        Snap s = snapshot(L, model.max_nonempty());
        c.check("factory-pure", "C20:factory-changed-lattice:" + name, same(s.m, model), [&] { return ctx + " changed the lattice: " + diff_text(s.m, model); });
        if (!inv.empty()) {   // documented domain: alpha != alpha', sigma != sigma'
            ++n_invalid; c.count("class:invalid"); c.count("invalid:" + api + ":" + inv);
            c.check("invalid-rejected", "C20:accepts-invalid:" + api + ":" + inv, ex.threw, [&] { return ctx + " is outside the documented domain (" + inv + ") but returned " + (T ? term_text(read_term(*T)) : std::string("null")); });
            if (ex.threw) { ++n_rejected_invalid; c.check("exception-type", "C20:exception-type:" + api, ex.etype == "exWrongIndices", [&] { return ctx + " threw " + ex.etype + " instead of the documented exWrongIndices"; }); }
            record(api, desc, "invalid", inv, ex.threw ? "threw " + ex.etype : "returned");
            return;
        }
        ++n_valid; c.count("class:valid");
        bool okv = c.check("valid-accepted", "C20:valid-rejected:" + api, !ex.threw && T, [&] { return ctx + (ex.threw ? " threw " + ex.etype : std::string(" returned a null pointer")); });
        record(api, desc, "valid", "", ex.threw ? "threw " + ex.etype : "returned");
        if (!okv) return;
        compare_factory(name, desc, read_term(*T), want, Vr);
        if (r.coin(0.6)) add_term_object(T, name);
    }

    // ---------------------------------------------------------------- LatticePresets
    enum PApi { P_COULOMB_S, P_COULOMB_P4, P_COULOMB_P3, P_MAGNET, P_LEVEL, P_SZSZ, P_SS, P_HOP7, P_HOP6, P_HOP5, P_HOP4, P_N };
    static const char* papi_name(int a) {
        static const char* n[] = {"addCoulombS", "addCoulombP[U,Up,J,eps]", "addCoulombP[U,J,eps]", "addMagnetization", "addLevel", "addSzSz", "addSS",
                                  "addHopping[o1,o2,s1,s2]", "addHopping[o1,o2,s]", "addHopping[o1,o2]", "addHopping[all]"};
        return n[a];
    }
    // documented domain of every preset, evaluated on the reference model; empty result = valid
    std::vector<std::string> preset_facts(int api, const std::string& l1, const std::string& l2, int o1, int o2, int s1, int s2) const {
        std::vector<std::string> f;
        auto i1 = model.sites.find(l1), i2 = model.sites.find(l2);
        bool k1 = i1 != model.sites.end(), k2 = i2 != model.sites.end();
        bool two = api >= P_SZSZ;
        if (!two) {
            if (!k1) { f.push_back("unknown-label"); return f; }
            int orb = i1->second.first, spin = i1->second.second;
            if (api == P_COULOMB_P4 || api == P_COULOMB_P3) { if (orb <= 1) f.push_back("single-orbital-site"); if (spin <= 1) f.push_back("single-spin-site"); }
            if (api == P_MAGNET && spin != 2) f.push_back("spin-count-not-2");
            return f;
        }
        if (!k1) f.push_back("unknown-label1");
        if (!k2) f.push_back("unknown-label2");
        if (!k1 || !k2) return f;
        int orb1 = i1->second.first, spin1 = i1->second.second, orb2 = i2->second.first, spin2 = i2->second.second;
        switch (api) {
        case P_SZSZ: case P_SS:
            if (spin1 != 2) f.push_back("site1-spin-count");
            if (spin2 != 2) f.push_back("site2-spin-count");
            if (orb1 != orb2) f.push_back("orbital-count-differs");
            break;
        case P_HOP7:
            if (o1 >= orb1) f.push_back("orbital1-range");
            if (o2 >= orb2) f.push_back("orbital2-range");
            if (s1 >= spin1) f.push_back("spin1-range");
            if (s2 >= spin2) f.push_back("spin2-range");
            break;
        case P_HOP6:
            if (o1 >= orb1) f.push_back("orbital1-range");
            if (o2 >= orb2) f.push_back("orbital2-range");
            if (s1 >= spin1) f.push_back("spin-range-site1");
            if (s1 >= spin2) f.push_back("spin-range-site2");
            break;
        case P_HOP5:
            if (o1 >= orb1) f.push_back("orbital1-range");
            if (o2 >= orb2) f.push_back("orbital2-range");
            if (spin1 != spin2) f.push_back("spin-count-differs");
            break;
        case P_HOP4:
            if (orb1 != orb2) f.push_back("orbital-count-differs");
            if (spin1 != spin2) f.push_back("spin-count-differs");
            break;
        }
        return f;
    }
    void step_preset() {
        int api = (int)r.range(0, P_N - 1);
        bool want_valid = r.coin(0.5);
        std::vector<std::string> kn = known_labels();
        std::string l1, l2; int o1 = 0, o2 = 0, s1 = 0, s2 = 0;
        const bool two = api >= P_SZSZ;
        // try a few random argument tuples and keep the first whose classification matches the wish (classification itself is done by preset_facts)
        for (int attempt = 0; attempt < 12; ++attempt) {
            double pk = want_valid ? 1.0 : 0.7;
            l1 = some_label(pk); l2 = two ? (r.coin(0.15) ? l1 : some_label(pk)) : l1;
            auto d1 = model.sites.find(l1), d2 = model.sites.find(l2);
            int orb1 = d1 == model.sites.end() ? 2 : d1->second.first, spin1 = d1 == model.sites.end() ? 2 : d1->second.second;
            int orb2 = d2 == model.sites.end() ? 2 : d2->second.first, spin2 = d2 == model.sites.end() ? 2 : d2->second.second;
            o1 = (int)r.range(0, orb1 - 1); o2 = (int)r.range(0, orb2 - 1); s1 = (int)r.range(0, spin1 - 1); s2 = (int)r.range(0, spin2 - 1);
            if (api == P_HOP6) s1 = (int)r.range(0, std::min(spin1, spin2) - 1);
            if (api == P_HOP6 && !want_valid && spin1 != spin2 && r.coin(0.5)) s1 = std::min(spin1, spin2);   // a spin component that exists on one of the two sites only
            if (!want_valid && api >= P_HOP7 && api <= P_HOP5 && r.coin(0.5)) {
                int which = (int)r.range(0, api == P_HOP7 ? 3 : (api == P_HOP6 ? 2 : 1));
                if (which == 0) o1 = too_big(orb1); else if (which == 1) o2 = too_big(orb2); else if (which == 2) s1 = too_big(api == P_HOP6 && r.coin() ? spin2 : spin1); else s2 = too_big(spin2);
            }
            bool is_valid = preset_facts(api, l1, l2, o1, o2, s1, s2).empty();
            if (is_valid == want_valid) break;
        }
        std::vector<std::string> facts = preset_facts(api, l1, l2, o1, o2, s1, s2);
        Call k; k.api = papi_name(api); k.effect = Call::PRESET; k.kind = join(facts, "+"); k.cls = facts.empty() ? VALID : INVALID;
        double v1 = pval(), v2 = pval(), v3 = pval(), v4 = pval(); cd t = cval(); if (r.coin(0.08)) t = cd(0, 0);
        Pomerol::MelemType m1 = to_melem(cd(v1, 0)), m2 = to_melem(cd(v2, 0)), m3 = to_melem(cd(v3, 0)), m4 = to_melem(cd(v4, 0)), mt = to_melem(t);
        us O1 = (us)o1, O2 = (us)o2, S1 = (us)s1, S2 = (us)s2;
        std::string nm = "LatticePresets::"; std::string ts = fmt(to_cd(mt));
        switch (api) {
        case P_COULOMB_S: k.desc = nm + "addCoulombS(" + q(l1) + "," + fmt(v1) + "," + fmt(v2) + ")"; k.fn = [=](Lat& X) { LP::addCoulombS(&X, l1, m1, m2); }; break;
        case P_COULOMB_P4: k.desc = nm + "addCoulombP(" + q(l1) + "," + fmt(v1) + "," + fmt(v2) + "," + fmt(v3) + "," + fmt(v4) + ")"; k.fn = [=](Lat& X) { LP::addCoulombP(&X, l1, m1, m2, m3, m4); }; break;
        case P_COULOMB_P3: k.desc = nm + "addCoulombP(" + q(l1) + "," + fmt(v1) + "," + fmt(v3) + "," + fmt(v4) + ")"; k.fn = [=](Lat& X) { LP::addCoulombP(&X, l1, m1, m3, m4); }; break;
        case P_MAGNET: k.desc = nm + "addMagnetization(" + q(l1) + "," + fmt(v1) + ")"; k.fn = [=](Lat& X) { LP::addMagnetization(&X, l1, m1); }; break;
        case P_LEVEL: k.desc = nm + "addLevel(" + q(l1) + "," + fmt(v1) + ")"; k.fn = [=](Lat& X) { LP::addLevel(&X, l1, m1); }; break;
        case P_SZSZ: k.desc = nm + "addSzSz(" + q(l1) + "," + q(l2) + "," + fmt(v1) + ")"; k.fn = [=](Lat& X) { LP::addSzSz(&X, l1, l2, m1); }; break;
        case P_SS: k.desc = nm + "addSS(" + q(l1) + "," + q(l2) + "," + fmt(v1) + ")"; k.fn = [=](Lat& X) { LP::addSS(&X, l1, l2, m1); }; break;
        case P_HOP7: k.desc = nm + "addHopping(" + q(l1) + "," + q(l2) + "," + ts + "," + std::to_string(o1) + "," + std::to_string(o2) + "," + std::to_string(s1) + "," + std::to_string(s2) + ")";
            k.fn = [=](Lat& X) { LP::addHopping(&X, l1, l2, mt, O1, O2, S1, S2); }; break;
        case P_HOP6: k.desc = nm + "addHopping(" + q(l1) + "," + q(l2) + "," + ts + "," + std::to_string(o1) + "," + std::to_string(o2) + "," + std::to_string(s1) + ")";
            k.fn = [=](Lat& X) { LP::addHopping(&X, l1, l2, mt, O1, O2, S1); }; break;
        case P_HOP5: k.desc = nm + "addHopping(" + q(l1) + "," + q(l2) + "," + ts + "," + std::to_string(o1) + "," + std::to_string(o2) + ")";
            k.fn = [=](Lat& X) { LP::addHopping(&X, l1, l2, mt, O1, O2); }; break;
        default: k.desc = nm + "addHopping(" + q(l1) + "," + q(l2) + "," + ts + ")"; k.fn = [=](Lat& X) { LP::addHopping(&X, l1, l2, mt); }; break;
        }
        apply(k);
    }

    // ---------------------------------------------------------------- look-ups
    void query_getSite(bool want_known) {
        ++step;
        std::vector<std::string> kn = known_labels();
        bool is_known = want_known && !kn.empty();
        std::string l = is_known ? r.pick(kn) : unknown_label();
        std::string desc = "getSite(" + q(l) + ")", ctx = where(desc);
        ++n_iso;
        const Lat& CL = L;
        IsoResult ir = run_isolated([&]() -> std::string {
            const Lat::Site* S = nullptr;
            Exec e = guarded([&] { S = &CL.getSite(l); });          // only an exception of getSite itself counts as "fails"
            if (e.threw) return "THROW:" + e.etype;
            std::string out;                                        // reading a bogus reference may crash or throw: that is still "returned"
            try { out = "RET:" + std::to_string(S->OrbitalSize) + ":" + std::to_string(S->SpinSize) + ":" + S->Label; } catch (...) { out = "RET:<unreadable Site object>"; }
            return out; }, 20);
        bool alive = ir.exited && ir.exit_code == 0;
        bool threw = alive && ir.out.compare(0, 6, "THROW:") == 0;
        std::string what = !alive ? "terminated the process (" + (ir.sig ? sig_name(ir.sig) : "exit code " + std::to_string(ir.exit_code)) + ")" : (threw ? "threw " + ir.out.substr(6) : "returned site " + ir.out.substr(std::min<size_t>(4, ir.out.size())));
        if (threw) c.count("exc:" + ir.out.substr(6));
        if (is_known) {
            auto it = model.sites.find(l);
            std::string want = "RET:" + std::to_string(it->second.first) + ":" + std::to_string(it->second.second) + ":" + l;
            if (c.check("getSite-known", "C20:getSite:known-label:" + std::string(!alive ? "crash" : "throws"), alive && !threw, [&] { return ctx + " " + what + " although a site was added under this label"; }))
                c.check("getSite-known-value", "C20:getSite:known-label:wrong-site", ir.out == want, [&] { return ctx + " " + what + ", expected orbitals:spins:label = " + want.substr(4); });
        } else {
            c.check("getSite-unknown", "C20:getSite:unknown-label:no-exception", threw, [&] { return ctx + " " + what + " instead of throwing (probed in a forked child)"; });
        }
        record("getSite", desc, is_known ? "query-known" : "query-unknown", "", what.substr(0, 80));
    }
    void query_getTerms() {
        ++step;
        static const unsigned ns[] = {0, 1, 2, 2, 3, 4, 4, 5, 6, 6, 7, 8, 100};
        unsigned n = ns[r.range(0, 12)];
        std::string desc = "getTermStorage().getTerms(" + std::to_string(n) + ")", ctx = where(desc);
        std::vector<MTerm> got; bool nullp = false;
        const Lat::TermList& tl = L.getTermStorage().getTerms(n);
        for (Lat::TermList::const_iterator it = tl.begin(); it != tl.end(); ++it) { if (!*it) { nullp = true; continue; } got.push_back(read_term(**it)); }
        auto it = model.terms.find(n); std::vector<MTerm> want = it == model.terms.end() ? std::vector<MTerm>() : it->second;
        c.check("getTerms", std::string("C20:getTerms:") + (want.empty() ? "order-without-terms" : "insertion-order"), !nullp && got == want,
                [&] { Model a, b; a.terms[n] = got; b.terms[n] = want; return ctx + ": " + diff_text(a, b); });
        record("getTerms", desc, want.empty() ? "query-empty-order" : "query-order", "", std::to_string(got.size()) + " terms");
    }
    void query_misc() {
        ++step;
        if (r.coin()) {
            unsigned got = L.getTermStorage().getMaxTermOrder(), want = model.max_nonempty();
            std::string desc = "getTermStorage().getMaxTermOrder()";
            c.check("getMaxTermOrder", "C20:getMaxTermOrder", got == want, [&] { return where(desc) + " = " + std::to_string(got) + ", largest stored order is " + std::to_string(want); });
            record("getMaxTermOrder", desc, "query", "", std::to_string(got));
        } else {
            Snap s = snapshot(L, 0);
            std::string desc = "getSiteMap()";
            c.check("getSiteMap", "C20:getSiteMap", s.m.sites == model.sites && s.inconsistency.empty(), [&] { return where(desc) + ": lattice " + s.m.sites_text() + " " + s.inconsistency; });
            record("getSiteMap", desc, "query", "", std::to_string(s.m.sites.size()) + " sites");
        }
    }

    // ---------------------------------------------------------------- copy construction
    bool all_indices_valid(const Model& m) const { for (auto& kv : m.terms) for (auto& t : kv.second) if (!index_defect(m, t).empty()) return false; return true; }
    bool rehearse_copy(const std::string& ctx) {
        MTerm t; bool have = false;
        for (auto& kv : model.sites) { t.order = 2; t.seq = {1, 0}; t.lab = {kv.first, kv.first}; t.orb = {0, 0}; t.spin = {0, 0}; t.val = 1.0; have = true; break; }
        ++n_iso;
        IsoResult ir = run_isolated([&]() -> std::string {
            Exec e = guarded([&] {
                { Lat L2(L); if (have) { std::shared_ptr<LTerm> T = build_term(t, 0); L2.addTerm(T.get()); } snapshot(L2, 8); }
                if (have) { std::shared_ptr<LTerm> T = build_term(t, 0); L.addTerm(T.get()); }
                snapshot(L, 8);
            });
            return e.threw ? "THROW:" + e.etype : "OK"; }, 20);
        bool alive = ir.exited && ir.exit_code == 0;
        return c.check("no-crash", "C20:crash:copy", alive, [&] { return ctx + ": copying the lattice, adding a term to the copy, destroying the copy and using the original again terminated the process (" + (ir.sig ? sig_name(ir.sig) : "exit code " + std::to_string(ir.exit_code)) + "); the step is skipped"; });
    }
    void step_copy() {
        ++step; ++n_copies;
        std::string desc = "Lattice L2(L)", ctx = where(desc);
        std::string outcome = "copied";
        // rehearsal in a forked child (copy, add a term to the copy, destroy the copy): a crash becomes an observation of this step
        if (!rehearse_copy(ctx)) { record("copy", desc, "copy", "", "crash"); return; }
        {
            Lat L2(L);
            Snap s2 = snapshot(L2, model.max_nonempty());
            c.check("copy-snapshot", "C20:copy:snapshot", same(s2.m, model) && s2.inconsistency.empty(), [&] { return ctx + ": copy differs from the original: " + diff_text(s2.m, model) + " " + s2.inconsistency; });
            c.check("copy-max-order", "C20:copy:getMaxTermOrder", s2.lib_max == model.max_nonempty(), [&] { return ctx + ": copy reports getMaxTermOrder()=" + std::to_string(s2.lib_max) + ", original has " + std::to_string(model.max_nonempty()); });
            // same model: symbolic Hamiltonians built from both lattices act identically on Fock states
            if (!model.sites.empty() && all_indices_valid(model)) {
                Pomerol::IndexClassification IC1(L.getSiteMap()), IC2(L2.getSiteMap());
                IC1.prepare(); IC2.prepare();
                int N = (int)IC1.getIndexSize();
                bool szok = c.check("copy-index-size", "C20:copy:index-size", IC1.getIndexSize() == IC2.getIndexSize(), [&] { return ctx + ": index spaces differ"; });
                if (szok && N >= 1 && N <= 62) {
                    Pomerol::IndexHamiltonian H1(&L, IC1), H2(&L2, IC2);
                    H1.prepare(); H2.prepare();
                    std::vector<uint64_t> kets;
                    if (N <= 6) for (uint64_t s = 0; s < (1ULL << N); ++s) kets.push_back(s);
                    else for (int i = 0; i < 24; ++i) kets.push_back(r.next() & ((1ULL << N) - 1));
                    double maxd = 0, scale = 1; long nz = 0;
                    for (uint64_t kv : kets) {
                        Pomerol::FockState ket((size_t)N, (unsigned long)kv);
                        std::map<Pomerol::FockState, Pomerol::MelemType> a = H1.actRight(ket), b = H2.actRight(ket);
                        for (auto& e : a) { auto it = b.find(e.first); cd y = it == b.end() ? cd(0, 0) : to_cd(it->second); maxd = std::max(maxd, std::abs(to_cd(e.second) - y)); scale = std::max(scale, std::abs(to_cd(e.second))); ++nz; }
                        for (auto& e : b) if (!a.count(e.first)) maxd = std::max(maxd, std::abs(to_cd(e.second)));
                    }
                    c.cmp("copy-hamiltonian", "C20:copy:hamiltonian", maxd, 0.0, 1e-13 * scale, [&] { return ctx + ": IndexHamiltonian of the copy acts differently on " + std::to_string(kets.size()) + " Fock states, max |difference|"; });
                    c.count("copy_hamiltonian_compared"); c.count("copy_hamiltonian_nonzero_elements", nz);
                    outcome += ", H compared on " + std::to_string(kets.size()) + " kets (N=" + std::to_string(N) + ")";
                }
            } else c.count("copy_hamiltonian_skipped");
            record("copy", desc, "copy", "", outcome);
            // independence: a term added to the copy does not show up in the original ...
            if (!model.sites.empty()) {
                Model before2 = s2.m;
                MTerm spec = gen_term_spec(r.coin() ? 2 : 4, 0);
                std::shared_ptr<LTerm> T = build_term(spec, 0);
                MTerm mt = read_term(*T);
                Cls cl; std::string kd; classify_term(mt, cl, kd);
                if (cl == VALID) {
                    Exec ex = guarded([&] { L2.addTerm(T.get()); });
                    Snap so = snapshot(L, model.max_nonempty()), sc = snapshot(L2, std::max(model.max_nonempty(), mt.order));
                    Model want2 = before2; want2.add_term(mt);
                    c.check("copy-independent", "C20:copy:independence:original-changed", same(so.m, model), [&] { return ctx + " then L2.addTerm(" + term_text(mt) + "): the ORIGINAL changed: " + diff_text(so.m, model); });
                    c.check("copy-accepts-term", "C20:copy:addTerm-effect", !ex.threw && same(sc.m, want2), [&] { return ctx + " then L2.addTerm(" + term_text(mt) + ")" + (ex.threw ? " threw " + ex.etype : "") + ": " + diff_text(sc.m, want2); });
                    // ... and vice versa (this call is a regular step of the history on the original)
                    Model copy_now = sc.m;
                    step_raw(0);
                    Snap sc2 = snapshot(L2, std::max(model.max_nonempty(), mt.order));
                    c.check("copy-independent", "C20:copy:independence:copy-changed", same(sc2.m, copy_now), [&] { return ctx + ", then a term was added to the original: the COPY changed: " + diff_text(sc2.m, copy_now); });
                }
            }
        }
        // the original survives the destruction of the copy
        Snap s = snapshot(L, model.max_nonempty());
        c.check("copy-destroyed", "C20:copy:original-after-copy-destroyed", same(s.m, model), [&] { return ctx + ": after destroying the copy the original differs: " + diff_text(s.m, model); });
    }

    // ---------------------------------------------------------------- the history
    void run(int len) {
        while (step < len) {
            size_t ns = model.sites.size();
            double u = r.uni();
            double p_site = ns < 2 ? 0.45 : (ns < 6 ? 0.07 : 0.0);
            if (u < p_site) { step_addSite(); continue; }
            u = r.uni();
            if (u < 0.30) step_raw();
            else if (u < 0.44) step_factory();
            else if (u < 0.78) step_preset();
            else if (u < 0.84) query_getSite(true);
            else if (u < 0.88) query_getSite(false);
            else if (u < 0.92) query_getTerms();
            else if (u < 0.96) query_misc();
            else if (n_copies < 2) step_copy();
            else query_getTerms();
        }
    }
};

}  // namespace

static long lattice_ncases(const std::string& tier) { return tier == "thorough" ? 50000 : 1000; }

// The library reports every refused call on stderr (ERROR macro); keep that chatter out of the harness's stderr.
struct QuietStderr {
    int saved = -1;
    QuietStderr() { fflush(stderr); saved = dup(2); int dn = open("/dev/null", O_WRONLY); if (dn >= 0) { dup2(dn, 2); close(dn); } }
    ~QuietStderr() { fflush(stderr); if (saved >= 0) { dup2(saved, 2); close(saved); } }
};

static void lattice_run(Ctx& c) {
    QuietStderr quiet;
    Hist h(c);
    int len = (int)c.rng.range(5, 40);
    h.run(len);
    c.model = J::obj().set("length", h.step).set("history", h.steps);
    c.canon = h.canon;
    c.features.set("length", h.step).set("sites", (long)h.model.sites.size()).set("terms", (long)h.model.nterms()).set("max_order", (long)h.model.max_nonempty())
        .set("valid_calls", h.n_valid).set("invalid_calls", h.n_invalid).set("accepted_valid", h.n_accepted_valid).set("rejected_invalid", h.n_rejected_invalid)
        .set("copies", h.n_copies).set("resyncs", h.n_resync).set("isolated_probes", h.n_iso);
    c.count("accepted_valid", h.n_accepted_valid); c.count("rejected_invalid", h.n_rejected_invalid); c.count("isolated_probes", h.n_iso);
    // rule: at least one accepted valid call (addTerm / factory / preset), one rejected invalid call and two sites
    c.nontrivial = h.n_accepted_valid >= 1 && h.n_rejected_invalid >= 1 && h.model.sites.size() >= 2;
}

VH_DRIVER(lattice, lattice_ncases, lattice_run);
