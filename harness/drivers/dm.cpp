// C09 - the density matrix is the normalised Gibbs state; averages are its traces.
#include "common/vh.hpp"
#include "common/pipeline.hpp"
#include "common/oracle.hpp"
#include "common/partitions.hpp"

using namespace vh;

static long dm_ncases(const std::string& tier) { return tier == "thorough" ? 20000 : 320; }

static void dm_run(Ctx& c) {
    Rng& r = c.rng;
    GenOpts g; g.max_modes = c.thorough() ? (r.coin(0.2) ? 8 : 6) : 6; g.allow_unbalanced = true; g.beta_lo = 1e-3; g.beta_hi = 1e3;
    ModelSpec m = gen_model(r, g);
    // stress classes: large bandwidth (beta*W up to 1e6 => underflow) and large uniform offsets
    std::string stress = "none";
    int sc = (int)r.range(0, 5);
    if (sc == 0) { stress = "offset"; double off = (r.coin() ? 1 : -1) * r.logu(1e3, 1e6); for (int s = 0; s < (int)m.sites.size(); ++s) { Op o; o.kind = Op::LEVEL; o.a = o.b = s; o.v1 = off; m.ops.push_back(o); } }
    else if (sc == 1) { stress = "bandwidth"; double sc_ = r.logu(10, 1e3); for (auto& o : m.ops) { if (o.kind == Op::RAW) o.raw.val *= sc_; else { o.v1 *= sc_; o.v2 *= sc_; o.v3 *= sc_; o.v4 *= sc_; } } }
    int pmode = (int)r.range(0, 2);
    Pipeline p; p.build_lattice(m);
    CMat Href = p.ref_H();
    if (r.coin(0.15)) { static const double cs[] = {7.0, -4.0, 1e3, 1e5}; double hc = cs[r.range(0, 3)]; *p.Storage += Pomerol::MelemType(hc); Href += hc * CMat::Identity(Href.rows(), Href.cols()); stress += "+constant"; }   // constant term in H: strictly positive (or very negative) spectrum
    RefED ed; ed.solve(Href);
    if (ed.herm_defect() > 1e-12 * (1 + ed.hnorm)) { c.skipped = true; return; }
    std::vector<Pomerol::Operator> ioms; J iomdesc = J::arr();
    if (pmode == PM_CUSTOM) ioms = benign_ioms(r, p, Href, iomdesc);
    p.build_states(pmode, ioms); p.build_hamiltonian(true);
    const double beta = m.beta; const int N = p.N; const long dim = p.dim;
    p.build_dm(beta);
    if (c.k % 2 == 0) { p.DM->compute(); p.DM->prepare(); p.DM->compute(); p.H->compute(); p.H->prepare(); }   // repeated calls are no-ops
    c.model = m.describe(); c.canon = m.canon() + "|" + pm_name(pmode) + iomdesc.str() + stress;
    double bw = ed.E.maxCoeff() - ed.E.minCoeff();
    c.features.set("partition", pm_name(pmode)).set("stress", stress).set("N", N).set("beta_bandwidth_decade", (long)std::floor(std::log10(std::max(beta * bw, 1e-3)))).set("blocks", p.nblocks());

    // library weights per Fock-state address, with the library's eigenvalue for that address
    const double eps = 2.220446049250313e-16;
    double emax = std::max(std::abs(ed.E.minCoeff()), std::abs(ed.E.maxCoeff()));
    std::vector<double> w((size_t)dim), E((size_t)dim);
    double sum = 0; bool finite = true, nonneg = true;
    for (long s = 0; s < dim; ++s) {
        w[(size_t)s] = p.DM->getWeight((Pomerol::QuantumState)s); E[(size_t)s] = p.H->getEigenValue((Pomerol::QuantumState)s);
        finite = finite && std::isfinite(w[(size_t)s]); nonneg = nonneg && !(w[(size_t)s] < 0); sum += w[(size_t)s];
    }
    std::string sk = "stress=" + stress;
    c.check("finite", "C09:weights-finite:" + sk, finite, [&] { return "non-finite weight, beta=" + fmt(beta) + " bandwidth=" + fmt(bw) + " |E|max=" + fmt(emax); });
    c.check("non-negative", "C09:weights-nonnegative", nonneg, [&] { return std::string("negative weight"); });
    c.cmp("normalised", "C09:weights-normalised:" + sk, sum, 1.0, 1e-12 * dim, [&] { return "sum of weights, beta=" + fmt(beta); });
    // ratios: ln(w_a/w_b) = -beta (E_a - E_b) for non-underflowed pairs (compare everything with the largest weight)
    long amax = 0; for (long s = 0; s < dim; ++s) if (w[(size_t)s] > w[(size_t)amax]) amax = s;
    long nratio = 0, nunder = 0;
    for (long s = 0; s < dim; ++s) {
        if (!(w[(size_t)s] > 1e-290)) { ++nunder;   // underflowed: must correspond to a really negligible Boltzmann factor
            c.check("underflow-justified", "C09:weight-zero-but-not-negligible", beta * (E[(size_t)s] - E[(size_t)amax]) > 600, [&] { return "weight " + fmt(w[(size_t)s]) + " for beta*(E-Emin)=" + fmt(beta * (E[(size_t)s] - E[(size_t)amax])); });
            continue; }
        double lhs = std::log(w[(size_t)s] / w[(size_t)amax]) + beta * (E[(size_t)s] - E[(size_t)amax]);
        c.cmp("ratio", "C09:weight-ratio:" + sk, lhs, 0.0, 1e-9 + 64 * eps * beta * emax, [&] { return "ln(w_a/w_b)+beta(E_a-E_b), beta=" + fmt(beta); });
        ++nratio;
    }
    // weights against the reference Gibbs state: compare as sorted multisets paired with sorted energies (degenerate levels have equal weights)
    RVec wref = ed.weights(beta);
    {
        std::vector<std::pair<double, double>> lib; for (long s = 0; s < dim; ++s) lib.push_back({E[(size_t)s], w[(size_t)s]});
        std::sort(lib.begin(), lib.end());
        for (long n = 0; n < dim; ++n) {
            // eigenvalues of two different solvers agree to ~1e-12*|E|max; a weight is exp(-beta*(E-E0))/Z
            double tol = (1e-10 + 1e-12 * beta * (1 + emax)) * wref(n) + 1e-300;
            c.cmp("weight-vs-gibbs", "C09:weight-vs-gibbs:" + sk, lib[(size_t)n].second, wref(n), tol, [&] { return "weight of sorted level #" + std::to_string(n) + " E=" + fmt(ed.E(n)) + " beta=" + fmt(beta); });
        }
    }
    // averages as traces on the full Fock space, in the reference eigenbasis
    double scale = 1 + emax;
    double tolrel = 1e-10 + 1e-12 * beta * (1 + emax);
    {
        double eref = 0; for (long n = 0; n < dim; ++n) eref += wref(n) * ed.E(n);
        c.cmp("avg-energy", "C09:average-energy", p.DM->getAverageEnergy(), eref, tolrel * scale + 1e-10 * scale, [&] { return "beta=" + fmt(beta); });
    }
    std::vector<CMat> nR((size_t)N);
    for (int i = 0; i < N; ++i) nR[(size_t)i] = jw_n(N, i);
    auto trace = [&](const CMat& Ofock) { CMat R = ed.rot(Ofock); cd t = 0; for (long n = 0; n < dim; ++n) t += wref(n) * R(n, n); return t; };
    double ntot = 0;
    for (int i = 0; i < N; ++i) {
        cd ni = trace(nR[(size_t)i]); ntot += ni.real();
        c.cmp("occupancy", "C09:occupancy-index", p.DM->getAverageOccupancy((Pomerol::ParticleIndex)i), ni, tolrel * 4 + 1e-10, [&] { return "<n_" + std::to_string(i) + "> beta=" + fmt(beta); });
    }
    c.cmp("occupancy-total", "C09:occupancy-total", p.DM->getAverageOccupancy(), ntot, (tolrel * 4 + 1e-10) * N, [&] { return "total occupancy beta=" + fmt(beta); });
    for (int i = 0; i < N; ++i) for (int j = 0; j < N; ++j) {
        if (N > 4 && !r.coin(16.0 / (N * N))) continue;
        cd nn = trace(nR[(size_t)i] * nR[(size_t)j]);
        c.cmp("double-occupancy", std::string("C09:double-occupancy:") + (i == j ? "same" : "different"), p.DM->getAverageDoubleOccupancy((Pomerol::ParticleIndex)i, (Pomerol::ParticleIndex)j), nn, tolrel * 4 + 1e-10, [&] { return "<n_" + std::to_string(i) + " n_" + std::to_string(j) + "> beta=" + fmt(beta); });
    }
    // ensemble averages <c+_i c_j>
    long nea = 0;
    for (int i = 0; i < N; ++i) for (int j = 0; j < N; ++j) {
        if (N > 4 && i != j && !r.coin(12.0 / (N * N))) continue;
        Pomerol::QuadraticOperator A(*p.IC, *p.S, *p.H, (Pomerol::ParticleIndex)i, (Pomerol::ParticleIndex)j); A.prepare(); A.compute();
        Pomerol::EnsembleAverage EA(*p.S, *p.H, A, *p.DM); EA.prepare();
        { Pomerol::EnsembleAverage EAcopy(EA); EAcopy.prepare(); EA.prepare();   // copy of a prepared object, prepare() again on both: nothing may change
          c.cmp("ensemble-average-copy", "C09:ensemble-average:copy-then-prepare", EAcopy.getResult(), EA.getResult(), 1e-14 * (1 + std::abs(cd(EA.getResult()))), [&] { return "copy-constructed EnsembleAverage <c+_" + std::to_string(i) + " c_" + std::to_string(j) + "> after prepare() on the copy"; });
          std::vector<Pomerol::EnsembleAverage> vec; vec.push_back(EA); vec.push_back(EA); vec[0].prepare();
          c.cmp("ensemble-average-copy", "C09:ensemble-average:copy-then-prepare", vec[0].getResult(), EA.getResult(), 1e-14 * (1 + std::abs(cd(EA.getResult()))), [&] { return std::string("EnsembleAverage stored in a std::vector, prepare() on the stored copy"); }); }
        cd ref = trace(jw_quad(N, i, j));
        c.cmp("ensemble-average", std::string("C09:ensemble-average:") + (i == j ? "diag" : "offdiag"), EA.getResult(), ref, tolrel * 4 + 1e-9, [&] { return "<c+_" + std::to_string(i) + " c_" + std::to_string(j) + "> beta=" + fmt(beta) + " part=" + pm_name(pmode); });
        ++nea;
    }
    c.count("ratios_checked", nratio); c.count("underflowed_weights", nunder); c.count("ensemble_averages", nea);
    c.features.set("underflow", nunder > 0);
    c.nontrivial = dim >= 4 && bw > 0;
}

VH_DRIVER(dm, dm_ncases, dm_run);
