// C13 - the 2PGF container honours the exchange symmetries regardless of the request history.
#include "common/vh.hpp"
#include "common/pipeline.hpp"
#include "common/oracle.hpp"
#include "common/g2tol.hpp"

using namespace vh;

static long g2cont_ncases(const std::string& tier) { return tier == "thorough" ? 48000 : 160; }

namespace {
typedef std::array<int, 4> Q4;
std::string qstr(const Q4& q) { return std::to_string(q[0]) + std::to_string(q[1]) + std::to_string(q[2]) + std::to_string(q[3]); }
Pomerol::IndexCombination4 ic4(const Q4& q) { return Pomerol::IndexCombination4((Pomerol::ParticleIndex)q[0], (Pomerol::ParticleIndex)q[1], (Pomerol::ParticleIndex)q[2], (Pomerol::ParticleIndex)q[3]); }
}

static void g2cont_run(Ctx& c) {
    Rng& r = c.rng;
    GenOpts g; g.min_modes = 2; g.max_modes = c.thorough() ? (r.coin(0.3) ? 4 : 3) : (r.coin(0.25) ? 3 : 2); g.beta_hi = 10.0; g.allow_six = false;
    g.pclasses = {"generic", "integers", "ph", "negU", "equal", "free", "atomic"};
    ModelSpec m = gen_model(r, g);
    int pmode = m.balanced_spins() ? PM_DEFAULT : PM_IGNORE;
    Pipeline p; p.build_all(m, pmode);
    const int N = p.N; const double beta = m.beta;
    c.model = m.describe();
    Pipeline::LibBasis lb = p.lib_basis(); G2Tol gt; gt.prepare(lb.E, beta);
    Pomerol::TwoParticleGFContainer cont(*p.IC, *p.S, *p.H, *p.DM, *p.Ops);

    std::map<Q4, std::unique_ptr<Pomerol::TwoParticleGF>> direct; double S = 1e-3 * beta * beta * beta;
    auto get_direct = [&](const Q4& q) -> Pomerol::TwoParticleGF& {
        auto it = direct.find(q);
        if (it == direct.end()) {
            std::unique_ptr<Pomerol::TwoParticleGF> d(new Pomerol::TwoParticleGF(*p.S, *p.H, p.Ops->getAnnihilationOperator((Pomerol::ParticleIndex)q[0]), p.Ops->getAnnihilationOperator((Pomerol::ParticleIndex)q[1]),
                                                                                 p.Ops->getCreationOperator((Pomerol::ParticleIndex)q[2]), p.Ops->getCreationOperator((Pomerol::ParticleIndex)q[3]), *p.DM));
            d->prepare(); d->compute();
            for (long a = -1; a <= 1; ++a) for (long b = -1; b <= 1; ++b) S = std::max(S, std::abs(cd((*d)(a, b, a))));
            it = direct.insert(std::make_pair(q, std::move(d))).first;
        }
        return *it->second;
    };
    auto rq = [&]() { Q4 q = {(int)r.range(0, N - 1), (int)r.range(0, N - 1), (int)r.range(0, N - 1), (int)r.range(0, N - 1)}; return q; };
    auto rtriple = [&]() { std::array<long, 3> t = {r.range(-2, 2), r.range(-2, 2), r.range(-2, 2)}; if (r.coin(0.25)) t[2] = t[0]; if (r.coin(0.2)) t[1] = -1 - t[0]; return t; };
    // is q present and (by the element's own status) prepared and computed?  No mutation of the container.
    auto evaluable = [&](const Q4& q) -> bool {
        auto it = cont.ElementsMap.find(ic4(q)); if (it == cont.ElementsMap.end()) return false;
        return static_cast<Pomerol::TwoParticleGF&>(it->second).getStatus() == Pomerol::TwoParticleGF::Computed;
    };
    auto is_stored = [&](const Q4& q) -> bool {
        auto it = cont.ElementsMap.find(ic4(q)); auto nt = cont.NonTrivialElements.find(ic4(q));
        return it != cont.ElementsMap.end() && nt != cont.NonTrivialElements.end() && nt->second.get() == it->second.pElement.get();
    };
    std::string hist; long n_eval = 0, n_alias = 0, n_stored = 0, n_bulk = 0, n_exch = 0; bool second_prepare = false, lookup_after_bulk = false; int n_prepare = 0;
    auto eval_checks = [&](const Q4& q, const std::string& phase) {
        if (!evaluable(q)) return;
        std::array<long, 3> t = rtriple();
        bool stored = is_stored(q); (stored ? n_stored : n_alias)++; ++n_eval;
        std::string sk = stored ? "stored" : "alias";
        cd v; bool threw = false; std::string what;
        try { v = cont.ElementsMap.find(ic4(q))->second(t[0], t[1], t[2]); } catch (const std::exception& e) { threw = true; what = e.what(); }
        if (!c.check("evaluable", "C13:computed-element-throws:" + sk + ":" + phase, !threw, [&] { return "history [" + hist + "] element " + qstr(q) + " has status Computed but evaluation threw: " + what; })) return;
        cd ref = get_direct(q)(t[0], t[1], t[2]);
        c.cmp("container-vs-direct", "C13:container-vs-direct:" + sk, v, ref, 2 * gt.tol(S), [&] { return "history [" + hist + "] chi_" + qstr(q) + "(" + std::to_string(t[0]) + "," + std::to_string(t[1]) + "," + std::to_string(t[2]) + ") " + sk; });
        // exchange identities inside the container, whenever both sides are evaluable
        Q4 q2 = {q[1], q[0], q[2], q[3]};
        if (evaluable(q2)) { cd w; bool th = false; try { w = cont.ElementsMap.find(ic4(q2))->second(t[1], t[0], t[2]); } catch (...) { th = true; }
            if (!th) { ++n_exch; c.cmp("exchange-annihilators", "C13:exchange:annihilators", v, -w, 2 * gt.tol(S), [&] { return "history [" + hist + "] chi_" + qstr(q) + "(n1,n2,n3) vs -chi_" + qstr(q2) + "(n2,n1,n3)"; }); } }
        Q4 q3 = {q[0], q[1], q[3], q[2]};
        if (evaluable(q3)) { cd w; bool th = false; try { w = cont.ElementsMap.find(ic4(q3))->second(t[0], t[1], t[0] + t[1] - t[2]); } catch (...) { th = true; }
            if (!th) { ++n_exch; c.cmp("exchange-creators", "C13:exchange:creators", v, -w, 2 * gt.tol(S), [&] { return "history [" + hist + "] chi_" + qstr(q) + "(n1,n2,n3) vs -chi_" + qstr(q3) + "(n1,n2,n1+n2-n3)"; }); } }
    };
    std::vector<Q4> interesting;   // quadruples touched so far
    int len = (int)r.range(3, 12);
    for (int step = 0; step < len; ++step) {
        int op = (int)r.range(0, 9);
        if (step == 0) op = 0;
        if (op <= 1) {              // prepareAll(S)
            std::set<Pomerol::IndexCombination4> Sset; std::string desc;
            int ns = (int)r.range(1, 4);
            for (int k = 0; k < ns; ++k) { Q4 q = (!interesting.empty() && r.coin(0.5)) ? r.pick(interesting) : rq();
                if (r.coin(0.3)) std::swap(q[0], q[1]); if (r.coin(0.3)) std::swap(q[2], q[3]);
                Sset.insert(ic4(q)); interesting.push_back(q); desc += qstr(q) + " "; }
            if (N == 2 && r.coin(0.15)) { Sset.clear(); desc = "ALL "; }
            hist += "prepareAll{" + desc + "}; "; if (n_prepare++ > 0) second_prepare = true;
            cont.prepareAll(Sset);
        } else if (op <= 3) {       // bulk compute
            bool split = r.coin();
            // precondition of the bulk call: every element has been prepared (an element created by an on-demand look-up is not)
            int nprep = 0;
            for (auto it = cont.ElementsMap.begin(); it != cont.ElementsMap.end(); ++it) { Pomerol::TwoParticleGF& e = static_cast<Pomerol::TwoParticleGF&>(it->second); if (e.getStatus() < Pomerol::TwoParticleGF::Prepared) { e.prepare(); ++nprep; } }
            for (auto it = cont.NonTrivialElements.begin(); it != cont.NonTrivialElements.end(); ++it) if (it->second->getStatus() < Pomerol::TwoParticleGF::Prepared) { it->second->prepare(); ++nprep; }
            hist += std::string(nprep ? "prepare-unprepared; " : "") + std::string("computeAll(") + (split ? "split" : "nosplit") + "); ";
            c.extra.set("history", hist);
            cont.computeAll(false, std::vector<boost::tuple<Pomerol::ComplexType, Pomerol::ComplexType, Pomerol::ComplexType>>(), boost::mpi::communicator(), split);
            ++n_bulk;
            // after a bulk computation every element the container lists is evaluable
            for (auto it = cont.ElementsMap.begin(); it != cont.ElementsMap.end(); ++it) {
                Q4 q = {(int)it->first.Index1, (int)it->first.Index2, (int)it->first.Index3, (int)it->first.Index4};
                bool threw = false; std::string what; cd v;
                try { v = it->second(0, 1, -1); } catch (const std::exception& e) { threw = true; what = e.what(); }
                std::string hk = second_prepare ? "after-repeated-prepareAll" : (lookup_after_bulk ? "after-on-demand-lookup" : "first-bulk");
                c.check("listed-evaluable", std::string("C13:listed-element-not-evaluable:") + (split ? "split" : "nosplit") + ":" + hk, !threw, [&] { return "history [" + hist + "] element " + qstr(q) + " listed by the container throws after the bulk computation: " + what; });
                if (!threw) { cd ref = get_direct(q)(0, 1, -1); ++n_eval; (is_stored(q) ? n_stored : n_alias)++;
                    c.cmp("container-vs-direct", std::string("C13:container-vs-direct:") + (is_stored(q) ? "stored" : "alias"), v, ref, 2 * gt.tol(S), [&] { return "history [" + hist + "] chi_" + qstr(q) + "(0,1,-1) after bulk compute"; }); }
                interesting.push_back(q);
            }
        } else if (op <= 5) {       // on-demand lookup, optionally followed by prepare / compute on the returned element
            Q4 q = r.coin(0.5) && !interesting.empty() ? r.pick(interesting) : rq();
            if (r.coin(0.4)) std::swap(q[0], q[1]);
            if (r.coin(0.4)) std::swap(q[2], q[3]);
            bool was = cont.isInContainer(ic4(q));
            Pomerol::TwoParticleGF& el = static_cast<Pomerol::TwoParticleGF&>(cont(ic4(q)));
            if (n_bulk > 0 && !was) lookup_after_bulk = true;
            int what = (int)r.range(0, 2);
            hist += "lookup(" + qstr(q) + ")" + (what >= 1 ? ".prepare()" : "") + (what == 2 ? ".compute()" : "") + "; ";
            if (what >= 1 && el.getStatus() < Pomerol::TwoParticleGF::Prepared) el.prepare();
            if (what == 2 && el.getStatus() >= Pomerol::TwoParticleGF::Prepared) el.compute();
            interesting.push_back(q);
            eval_checks(q, "on-demand");
        } else {                    // evaluation of a random touched quadruple (and its exchange partners)
            if (interesting.empty()) continue;
            Q4 q = r.pick(interesting); int w = (int)r.range(0, 3);
            if (w == 1) std::swap(q[0], q[1]); if (w == 2) std::swap(q[2], q[3]); if (w == 3) { std::swap(q[0], q[1]); std::swap(q[2], q[3]); }
            hist += "eval(" + qstr(q) + "); ";
            eval_checks(q, "eval");
        }
    }
    c.canon = m.canon() + "|" + hist;
    c.extra.set("history", hist);
    c.features.set("N", N).set("len", len).set("bulk_computes", n_bulk).set("second_prepare", second_prepare);
    c.count("evaluations", n_eval); c.count("alias_evaluations", n_alias); c.count("stored_evaluations", n_stored); c.count("exchange_checks", n_exch); c.count("bulk_computes", n_bulk);
    c.nontrivial = n_eval > 0 && n_bulk + n_alias > 0;
}

VH_DRIVER(g2cont, g2cont_ncases, g2cont_run);
