// C01 - single-particle Matsubara Green's function equals its definition (stand-alone object and container).
#include "common/vh.hpp"
#include "common/pipeline.hpp"
#include "common/oracle.hpp"

using namespace vh;

static long gfdef_ncases(const std::string& tier) { return tier == "thorough" ? 20000 : 160; }

static void gfdef_run(Ctx& c) {
    Rng& r = c.rng;
    GenOpts g;
    g.max_modes = c.thorough() ? (r.coin(0.15) ? 7 : 6) : 5;
    g.beta_hi = c.thorough() ? 100.0 : 30.0;
    int pmode = (c.k % 3 == 2) ? PM_IGNORE : PM_DEFAULT;
    g.allow_unbalanced = (pmode == PM_IGNORE);
    ModelSpec m = gen_model(r, g);
    const bool cold = (c.k % 6 == 5);      // beta*(E-E_ground) of several hundred to thousands: statistical weights underflow to exactly 0, G must stay exact
    if (cold) m.beta = r.logu(150, 3000);
    Pipeline p; p.build_lattice(m);
    CMat Href = p.ref_H();
    RefED ed; ed.solve(Href);
    if (ed.herm_defect() > 1e-12 * (1 + ed.hnorm)) { c.skipped = true; return; }
    p.build_states(pmode); p.build_hamiltonian(true); p.build_dm(m.beta); p.build_ops();
    const int N = p.N; const double beta = m.beta;
    c.model = m.describe(); c.canon = m.canon() + "|" + pm_name(pmode) + (cold ? "|cold" : "");
    c.features.set("cold", cold).set("partition", pm_name(pmode)).set("blocks", p.nblocks()).set("N", N).set("pclass", m.pclass);

    // index pairs
    std::vector<std::pair<int, int>> pairs;
    if (N <= 4) { for (int i = 0; i < N; ++i) for (int j = 0; j < N; ++j) pairs.push_back({i, j}); }
    else {
        for (int i = 0; i < N; ++i) pairs.push_back({i, i});
        std::set<std::pair<int, int>> seen;
        for (int t = 0; t < 14; ++t) { int i = (int)r.range(0, N - 1), j = (int)r.range(0, N - 1); if (i != j && seen.insert({i, j}).second) pairs.push_back({i, j}); }
    }
    std::vector<long> ns = {-3, -2, -1, 0, 1, 2, 3, 50, -50, 1000, -1000, -51};

    // reference data
    RVec wref = ed.weights(beta);
    std::vector<CMat> cF((size_t)N), cdF((size_t)N), cR((size_t)N), cdR((size_t)N), cL((size_t)N), cdL((size_t)N);
    Pipeline::LibBasis lb = p.lib_basis();
    RVec wlib = p.lib_weights();
    for (int i = 0; i < N; ++i) {
        cF[(size_t)i] = jw_c(N, i); cdF[(size_t)i] = cF[(size_t)i].adjoint();
        cR[(size_t)i] = ed.rot(cF[(size_t)i]); cdR[(size_t)i] = cR[(size_t)i].adjoint();
        cL[(size_t)i] = lb.U.adjoint() * cF[(size_t)i] * lb.U; cdL[(size_t)i] = cL[(size_t)i].adjoint();
    }
    // container route
    Pomerol::GFContainer cont(*p.IC, *p.S, *p.H, *p.DM, *p.Ops);
    cont.prepareAll(); cont.computeAll();
    const bool recompute = (c.k % 2 == 0);      // repeated compute()/computeAll() must be idempotent (the objects guard on their status)
    if (recompute) cont.computeAll();

    bool use_expm = (N <= (c.thorough() ? 5 : 4)) && beta * (2 * ed.hnorm + 1) < 300;   // the block-exponential oracle needs exp(beta*bandwidth) to be representable
    long ndropped = 0, nonzero_offdiag = 0; double dropped_mass = 0;
    std::string pk = std::string("part=") + pm_name(pmode);
    for (auto& ij : pairs) {
        int i = ij.first, j = ij.second;
        // stand-alone route: operators computed one by one
        Pomerol::AnnihilationOperator C(*p.IC, *p.S, *p.H, (Pomerol::ParticleIndex)i); C.prepare(); C.compute();
        Pomerol::CreationOperator CX(*p.IC, *p.S, *p.H, (Pomerol::ParticleIndex)j); CX.prepare(); CX.compute();
        Pomerol::GreensFunction GF(*p.S, *p.H, C, CX, *p.DM); GF.prepare(); GF.compute();
        if (recompute) { GF.compute(); GF.prepare(); GF.compute(); C.compute(); CX.compute(); }
        Pomerol::GreensFunction GFcopy(GF);       // copy of a computed object evaluates like the original
        // life cycle: copies taken at every stage and driven on by the remaining calls must end up as the same function
        Pomerol::GreensFunction GA(*p.S, *p.H, C, CX, *p.DM);
        Pomerol::GreensFunction GA0(GA); GA0.prepare(); GA0.compute();                 // copy of a constructed object
        GA.prepare(); Pomerol::GreensFunction GA1(GA); GA1.compute();                   // copy of a prepared object
        GA.compute(); Pomerol::GreensFunction GA2(GA); GA2.prepare(); GA2.compute();    // copy of a computed object, driven again
        std::vector<Pomerol::GreensFunction> vec; vec.push_back(GA1); vec.push_back(GA2); vec[0].compute(); vec[1].compute();
        Pomerol::GreensFunction& GC = cont((Pomerol::ParticleIndex)i, (Pomerol::ParticleIndex)j);
        TolG tol; tol.prepare(lehmann_terms(cL[(size_t)i], cdL[(size_t)j], lb.E, wlib)); tol.beta = beta;
        ndropped += (long)tol.Rsmall.size(); dropped_mass += tol.dropped_sum();
        std::string kind = (i == j) ? "diag" : "offdiag";
        bool any_nonzero = false;
        for (long n : ns) {
            double w = (2 * n + 1) * M_PI / beta; cd z(0, w);
            cd ref = lehmann_G(cR[(size_t)i], cdR[(size_t)j], ed.E, wref, z);
            if (std::abs(ref) > 1e-9) any_nonzero = true;
            double t = tol.at(z, ref);
            {   // the reference sum has the same two rounding sources as the library's (see TolG::at), in its own eigenbasis - where a component that vanishes
                // identically in the library's basis may be a sum of cancelling terms
                const CMat& A = cR[(size_t)i]; const CMat& B = cdR[(size_t)j]; double s1r = 0; const long d = ed.E.size();
                for (long a = 0; a < d; ++a) for (long b = 0; b < d; ++b) { double x = std::abs(A(a, b) * B(b, a)); if (x > 0) s1r += x * (wref(a) + wref(b)) / std::abs(z - (ed.E(b) - ed.E(a))); }
                const double noise = 32 * 2.220446049250313e-16 * (1 + (ed.E.maxCoeff() - ed.E.minCoeff()));
                t += s1r * (4 * beta * noise + 8 * 2.220446049250313e-16 * std::sqrt(double(d) * double(d)));
            }
            if (use_expm && std::abs(n) <= 50) {
                cd ref3 = expm_G(ed, cF[(size_t)i], cdF[(size_t)j], beta, w);
                double otol = 1e-9 * (1 + std::abs(ref)) * (1 + beta * ed.hnorm * 0.01);
                c.count("oracle_crosschecks");
                if (!(std::abs(ref3 - ref) <= otol))
                    c.violation("oracle", "HARNESS:oracle-disagree:gfdef", "Lehmann oracle " + fmt(ref) + " vs block-exponential oracle " + fmt(ref3) + " i=" + std::to_string(i) + " j=" + std::to_string(j) + " n=" + std::to_string(n));
            }
            auto det = [&] { return "G_{" + std::to_string(i) + "," + std::to_string(j) + "}(n=" + std::to_string(n) + ") beta=" + fmt(beta) + " " + pk; };
            cd ls = GF(n), lc = GC(n), lz = GF(z);
            c.cmp("standalone-vs-definition", "C01:standalone-vs-definition:" + kind + ":" + pk, ls, ref, t, det);
            c.cmp("container-vs-definition", "C01:container-vs-definition:" + kind + ":" + pk, lc, ref, t, det);
            c.cmp("container-vs-standalone", "C01:container-vs-standalone:" + kind, lc, ls, 2 * t, det);
            c.cmp("long-vs-complex-overload", "C01:long-vs-complex-overload", lz, ls, 1e-13 * (1 + std::abs(ls)), det);
            c.cmp("copy-vs-original", "C01:copy-vs-original", GFcopy(n), ls, 1e-14 * (1 + std::abs(ls)), det);
            { const Pomerol::GreensFunction* cp[] = {&GA0, &GA1, &GA2, &vec[0], &vec[1]}; static const char* nm[] = {"of-constructed", "of-prepared", "of-computed", "vector-of-prepared", "vector-of-computed"};
              for (int q = 0; q < 5; ++q) c.cmp("copy-then-compute", std::string("C01:copy-then-compute:") + nm[q], (*cp[q])(n), ls, 1e-13 * (1 + std::abs(ls)), det); }
        }
        if (i != j && any_nonzero) ++nonzero_offdiag;
    }
    c.count("index_pairs", (long)pairs.size()); c.count("dropped_residues", ndropped); c.count("nonzero_offdiag_components", nonzero_offdiag);
    c.features.set("recompute", recompute).set("dropped_residues", ndropped).set("dropped_mass", dropped_mass).set("nonzero_offdiag", nonzero_offdiag);
    bool offdiag = false; for (long a = 0; a < p.dim && !offdiag; ++a) for (long b = 0; b < a; ++b) if (std::abs(Href(a, b)) > 0) { offdiag = true; break; }
    c.nontrivial = offdiag && p.dim >= 4;
}

VH_DRIVER(gfdef, gfdef_ncases, gfdef_run);
