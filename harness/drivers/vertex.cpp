// C15 - the irreducible vertex equals chi minus the documented Wick part, and its precomputed Matsubara storage
//       (MatsubaraContainer4) is transparent: reading through the storage returns exactly what the direct formula gives,
//       for every frequency triple inside or outside the precomputed window and for every window size.
//
// Two kinds of cases:
//  (a) STORAGE (exhaustive): Pomerol::MatsubaraContainer4<CountingSource> with a harness-defined source whose value() is an
//      injective encoding of its arguments and which logs every call.  What is "stored" is OBSERVED (the set F of triples
//      requested during fill(), and whether a later read forwards a call to the source), never inferred from the code.
//  (b) VERTEX on generated models: Vertex4 built from library TwoParticleGF / GreensFunction objects; V(n1,n2,n3) (through
//      the storage) vs V.value(n1,n2,n3) (direct) bit-for-bit, and V.value vs chi - chi0 assembled by the harness from the
//      documentation (Misc.h main page: "The Wick part of a two-particle Green's function", "An irreducible vertex part").
#include "common/vh.hpp"
#include "common/pipeline.hpp"
#include "common/oracle.hpp"
#include "common/isolate.hpp"
#include <pomerol/Vertex4.h>           // not part of the umbrella header pomerol.h
#include <pomerol/MatsubaraContainers.h>
#include <algorithm>
#include <cstring>
#include <cstdlib>
#include <ctime>
#include <tuple>

using namespace vh;

namespace {

struct Tri {
    long a, b, c;
    bool operator<(const Tri& o) const { return a != o.a ? a < o.a : (b != o.b ? b < o.b : c < o.c); }
    bool operator==(const Tri& o) const { return a == o.a && b == o.b && c == o.c; }
    bool operator!=(const Tri& o) const { return !(*this == o); }
};
std::string ts(const Tri& t) { return "(" + std::to_string(t.a) + "," + std::to_string(t.b) + "," + std::to_string(t.c) + ")"; }

// Injective, exactly representable encoding of (tag, n1, n2, n3) for |n| < 512, 0 <= tag < 1024.
cd encode(long tag, long n1, long n2, long n3) { return cd(double((n1 + 512) + 1024 * (n2 + 512) + 1048576 * tag), double(n3)); }
bool decode(const cd& v, long& tag, Tri& t) {
    double re = v.real(), im = v.imag();
    if (!(re >= 0 && re < 1099511627776.0) || re != std::floor(re) || !(std::abs(im) < 1e6) || im != std::floor(im)) return false;
    long r = (long)re; tag = r >> 20; t.b = ((r >> 10) & 1023) - 512; t.a = (r & 1023) - 512; t.c = (long)im; return true;
}

struct CountingSource {
    long tag = 0;
    mutable std::vector<Tri> log;      // every call of value(), in order
    Pomerol::ComplexType value(long n1, long n2, long n3) const { log.push_back(Tri{n1, n2, n3}); return encode(tag, n1, n2, n3); }
};
typedef Pomerol::MatsubaraContainer4<CountingSource> Cont;

// The documented window of fill(N): all triples whose four fermionic numbers n1, n2, n3, n4 = n1+n2-n3 lie in [-N, N).
std::set<Tri> expected_window(long N) {
    std::set<Tri> F;
    for (long n1 = -N; n1 < N; ++n1) for (long n2 = -N; n2 < N; ++n2) for (long n3 = -N; n3 < N; ++n3) {
        long n4 = n1 + n2 - n3; if (n4 >= -N && n4 < N) F.insert(Tri{n1, n2, n3});
    }
    return F;
}
// |F| through the documented layout "bosonic index major with a per-slice fermionic offset":
//   |F| = sum_{W=-2N}^{2N-2} s(W)^2,  s(W) = #{ n1 in [-N,N) : W - n1 in [-N,N) }   (W = n1 + n2 is the bosonic index;
//   both n1 and n3 run over the same s(W) values of the slice, hence the square).
long expected_window_size(long N) {
    long tot = 0;
    for (long W = -2 * N; W <= 2 * N - 2; ++W) { long s = 0; for (long n1 = -N; n1 < N; ++n1) { long n2 = W - n1; if (n2 >= -N && n2 < N) ++s; } tot += s * s; }
    return tot;
}

struct ReadRec { Tri asked; cd val; long tag_seen = -1; bool decoded = false; Tri got{0, 0, 0}; long ncalls = 0; Tri fwd{0, 0, 0}; };

// read one triple through the container, observing the value and the calls forwarded to the source
ReadRec read_one(const Cont& C, const CountingSource& src, const Tri& t) {
    ReadRec rr; rr.asked = t;
    size_t before = src.log.size();
    rr.val = C(t.a, t.b, t.c);
    rr.ncalls = (long)(src.log.size() - before);
    if (rr.ncalls > 0) rr.fwd = src.log[before];
    rr.decoded = decode(rr.val, rr.tag_seen, rr.got);
    return rr;
}

std::vector<Tri> box_points(long lo, long hi) {
    std::vector<Tri> v; for (long a = lo; a <= hi; ++a) for (long b = lo; b <= hi; ++b) for (long d = lo; d <= hi; ++d) v.push_back(Tri{a, b, d}); return v;
}

struct FillObs { std::vector<Tri> calls; std::set<Tri> F; long dup = 0; Tri first_dup{0, 0, 0}; };
FillObs do_fill(Cont& C, CountingSource& src, long NM) {
    FillObs o; src.log.clear();
    C.fill(&src, NM);
    o.calls = src.log; src.log.clear();
    for (auto& t : o.calls) if (!o.F.insert(t).second) { if (!o.dup) o.first_dup = t; ++o.dup; }
    return o;
}

const char* phase_name(int ph) { static const char* n[] = {"fresh", "refill-shrink", "refill-grow", "refill-chain"}; return n[ph]; }

std::vector<long> storage_nms(bool thorough) {
    if (thorough) return {0, 1, 2, 3, 4, 5, 6, 7, 8, 12, 16};
    return {0, 1, 2, 3, 4, 6};
}
const int kPhases = 4;

// ------------------------------------------------------------------------------------------------ (a) storage case
void storage_case(Ctx& c, long NM, int phase) {
    Rng& r = c.rng;
    const long lo = -NM - 3, hi = NM + 2;
    // fill history of the container under test (last entry = NM); phase 0: fresh container
    std::vector<long> hist;
    if (phase == 1) hist = {NM + 2};
    else if (phase == 2) hist = {NM / 2};
    else if (phase == 3) {
        int len = (int)r.range(3, 4);
        for (int q = 0; q < len; ++q) hist.push_back(r.range(0, NM + 3));
        hist[(size_t)r.range(0, len - 1)] = 0;          // always pass through the empty window
    }
    hist.push_back(NM);
    J hj = J::arr(); for (long h : hist) hj.push(h);
    c.model = J::obj().set("kind", "storage").set("NM", NM).set("phase", phase_name(phase)).set("fill_sequence", hj).set("box", J::arr().push(lo).push(hi));
    c.canon = "storage|" + std::to_string(NM) + "|" + phase_name(phase) + "|" + hj.str();
    c.features.set("kind", "storage").set("NM", NM).set("phase", phase_name(phase)).set("nfills", (long)hist.size());
    c.extra.set("exhaustive", true);

    // ---- reference run on a FRESH container: the standard monitors
    CountingSource src; src.tag = 1;
    Cont fresh;
    FillObs fo = do_fill(fresh, src, NM);
    std::string nk = (NM == 0) ? "N=0" : "N>0";
    c.check("duplicate-fill", "C15:storage:duplicate-fill", fo.dup == 0, [&] { return "fill(NM=" + std::to_string(NM) + ") requested " + ts(fo.first_dup) + " more than once (" + std::to_string(fo.dup) + " repeated requests)"; });
    std::set<Tri> Fexp = expected_window(NM);
    long szexp = expected_window_size(NM);
    c.check("window-size", "C15:storage:window-shape", (long)fo.F.size() == szexp, [&] { return "fill(NM=" + std::to_string(NM) + ") requested " + std::to_string(fo.F.size()) + " distinct triples, documented layout has sum_W s(W)^2 = " + std::to_string(szexp); });
    if ((long)Fexp.size() != szexp) c.violation("oracle", "HARNESS:oracle-disagree:vertex-window", "enumerated window " + std::to_string(Fexp.size()) + " vs slice formula " + std::to_string(szexp));
    c.check("window-shape", "C15:storage:window-shape", fo.F == Fexp, [&] {
        std::string d = "fill(NM=" + std::to_string(NM) + "): ";
        for (auto& t : Fexp) if (!fo.F.count(t)) { d += "documented-window triple " + ts(t) + " not requested; "; break; }
        for (auto& t : fo.F) if (!Fexp.count(t)) { d += "triple " + ts(t) + " outside the documented window requested; "; break; }
        return d; });
    c.check("reported-size", "C15:storage:getNumberOfMatsubaras", fresh.getNumberOfMatsubaras() == NM, [&] { return "getNumberOfMatsubaras()=" + std::to_string(fresh.getNumberOfMatsubaras()) + " after fill(" + std::to_string(NM) + ")"; });

    // points to read: the whole box, plus anything fill() requested outside of it
    std::vector<Tri> pts = box_points(lo, hi);
    for (auto& t : fo.F) if (t.a < lo || t.a > hi || t.b < lo || t.b > hi || t.c < lo || t.c > hi) pts.push_back(t);
    std::vector<ReadRec> ref; ref.reserve(pts.size());
    long hits = 0, misses = 0;
    for (auto& t : pts) {
        ReadRec rr = read_one(fresh, src, t);
        ref.push_back(rr);
        bool inF = fo.F.count(t) > 0;
        c.check("value", "C15:storage:value-mismatch:" + std::string(inF ? "stored" : "forwarded"), rr.decoded && rr.got == t, [&] {
            return "NM=" + std::to_string(NM) + " read " + ts(t) + " returned " + fmt(rr.val) + (rr.decoded ? " = value of " + ts(rr.got) : " (not a source value)") + "; expected " + fmt(encode(src.tag, t.a, t.b, t.c)); });
        if (inF) {
            c.check("hit", "C15:storage:miss-inside-window", rr.ncalls == 0, [&] { return "NM=" + std::to_string(NM) + " triple " + ts(t) + " was requested during fill but reading it called value() " + std::to_string(rr.ncalls) + " time(s) again"; });
        } else {
            c.check("miss", "C15:storage:hit-outside-window:" + nk, rr.ncalls >= 1, [&] { return "NM=" + std::to_string(NM) + " triple " + ts(t) + " was never requested during fill, yet reading it did not call value()"; });
            if (rr.ncalls >= 1)
                c.check("miss-forward", "C15:storage:miss-forwarding", rr.ncalls == 1 && rr.fwd == t, [&] { return "NM=" + std::to_string(NM) + " read " + ts(t) + " forwarded " + std::to_string(rr.ncalls) + " call(s), first with arguments " + ts(rr.fwd); });
        }
        if (rr.ncalls == 0) ++hits; else ++misses;
    }
    if (NM == 0) c.check("empty-window", "C15:storage:hit-outside-window:N=0", hits == 0 && fo.calls.empty(), [&] { return "NM=0: " + std::to_string(hits) + " hits, " + std::to_string(fo.calls.size()) + " fill calls"; });
    c.count("triples_read", (long)pts.size()); c.count("hits", hits); c.count("misses", misses); c.count("fill_calls", (long)fo.calls.size());
    c.extra.set("triples_read", (long)pts.size()).set("hits", hits).set("misses", misses).set("fill_calls", (long)fo.calls.size()).set("window_size_documented", szexp);

    // ---- container with a fill history must behave exactly like the fresh one
    if (phase > 0) {
        Cont used;
        std::vector<std::unique_ptr<CountingSource>> srcs;
        long tag = 2;
        for (size_t q = 0; q + 1 < hist.size(); ++q) {
            srcs.emplace_back(new CountingSource()); srcs.back()->tag = tag++;
            do_fill(used, *srcs.back(), hist[q]);
            // touch it between fills (inside and outside of that window)
            long h = hist[q];
            for (long a = -h - 1; a <= h; ++a) { Tri t{a, -a - 1 + (a & 1), a}; ReadRec rr = read_one(used, *srcs.back(), t);
                c.check("value", "C15:storage:value-mismatch:intermediate", rr.decoded && rr.got == t && rr.tag_seen == srcs.back()->tag, [&] { return "after fill(" + std::to_string(h) + ") read " + ts(t) + " returned " + fmt(rr.val); }); }
        }
        srcs.emplace_back(new CountingSource()); srcs.back()->tag = tag++;
        CountingSource& s2 = *srcs.back();
        FillObs f2 = do_fill(used, s2, NM);
        std::string seq = "fill sequence " + hj.str();
        c.check("refill-window", "C15:storage:refill", f2.F == fo.F && f2.calls.size() == fo.calls.size(), [&] { return seq + ": last fill requested " + std::to_string(f2.calls.size()) + " values (" + std::to_string(f2.F.size()) + " distinct), a fresh container " + std::to_string(fo.calls.size()) + " (" + std::to_string(fo.F.size()) + ")"; });
        c.check("refill-size", "C15:storage:refill", used.getNumberOfMatsubaras() == fresh.getNumberOfMatsubaras(), [&] { return seq + ": getNumberOfMatsubaras " + std::to_string(used.getNumberOfMatsubaras()); });
        long stale_calls = 0; for (size_t q = 0; q + 1 < srcs.size(); ++q) stale_calls -= (long)srcs[q]->log.size();
        for (size_t q = 0; q < pts.size(); ++q) {
            ReadRec rr = read_one(used, s2, pts[q]);
            const ReadRec& f = ref[q];
            bool same = rr.decoded == f.decoded && rr.ncalls == f.ncalls && (!rr.decoded || (rr.got == f.got && rr.tag_seen - s2.tag == f.tag_seen - src.tag)) && (rr.ncalls == 0 || rr.fwd == f.fwd)
                        && (rr.decoded || (rr.val == f.val));
            c.check("refill-read", "C15:storage:refill", same, [&] {
                return seq + ": read " + ts(pts[q]) + " returned " + fmt(rr.val) + (rr.decoded ? " = value of " + ts(rr.got) + " from source #" + std::to_string(rr.tag_seen) : "") + " with " + std::to_string(rr.ncalls) + " forwarded call(s); current source is #" + std::to_string(s2.tag) +
                       "; a fresh container returns " + fmt(f.val) + " with " + std::to_string(f.ncalls) + " forwarded call(s)"; });
        }
        for (size_t q = 0; q + 1 < srcs.size(); ++q) stale_calls += (long)srcs[q]->log.size();
        c.check("refill-stale-source", "C15:storage:refill", stale_calls == 0, [&] { return seq + ": " + std::to_string(stale_calls) + " calls went to a source object of an earlier fill"; });
    }
    c.nontrivial = NM >= 1;
}

// ------------------------------------------------------------------------------------------------ (b) vertex case
struct Quad { int i, j, k, l; bool operator<(const Quad& o) const { return std::tie(i, j, k, l) < std::tie(o.i, o.j, o.k, o.l); } };
std::string qs(const Quad& q) { return "(" + std::to_string(q.i) + "," + std::to_string(q.j) + "," + std::to_string(q.k) + "," + std::to_string(q.l) + ")"; }

bool same_bits(const cd& a, const cd& b) {
    if (a.real() == b.real() && a.imag() == b.imag()) return true;
    double x[2] = {a.real(), a.imag()}, y[2] = {b.real(), b.imag()};
    return std::memcmp(x, y, sizeof x) == 0;
}

// Points of the box [lo,hi]^3 read for one (quadruple, NM).  cap < 0: the whole box.  Otherwise a structured sample of at
// most `cap` points: first the points every case must see (both deltas / one delta / none, each inside and outside of the
// stored window, window edges), then random points of the box, every second one forced onto a delta plane.
std::vector<Tri> vertex_points(Rng& r, long NM, long cap) {
    const long lo = -NM - 2, hi = NM + 1;
    if (cap < 0 || cap >= (hi - lo + 1) * (hi - lo + 1) * (hi - lo + 1)) return box_points(lo, hi);
    std::vector<Tri> v; std::set<Tri> seen;
    auto add = [&](long a, long b, long d) { Tri t{a, b, d}; if (a < lo || a > hi || b < lo || b > hi || d < lo || d > hi) return; if ((long)v.size() < cap && seen.insert(t).second) v.push_back(t); };
    const long in0 = -NM, in1 = NM - 1, out0 = -NM - 1, out1 = NM;   // first/last stored number, first numbers outside
    add(0, 0, 0); add(out1, out1, out1);                               // both deltas: inside (if NM>=1) / outside
    add(in0, in1, in0); add(in0, in1, in1);                            // delta13 only / delta14 only, inside (NM>=1)
    add(out0, out1, out0); add(out0, out1, out1);                      // the same outside, bosonic slice W=-1 exists in the storage
    add(in0, in1, 0); add(lo, hi, 0);                                  // no delta
    add(out0, in1, in0); add(in0, out1, in1); add(in0, in1, out1);     // exactly one number outside
    add(in1, in1, in1); add(in0, in0, in0); add(out0, out0, out0);     // extreme bosonic slices
    add(lo, lo, lo); add(hi, hi, hi); add(hi, lo, hi); add(lo, hi, hi);
    for (long guard = 0; (long)v.size() < cap && guard < 50 * cap; ++guard) {
        long a = r.range(lo, hi), b = r.range(lo, hi), d = r.range(lo, hi);
        long mode = r.range(0, 3);
        if (mode == 0) d = a; else if (mode == 1) d = b;
        add(a, b, d);
    }
    return v;
}

void vertex_case(Ctx& c, long idx) {
    Rng& r = c.rng;
    GenOpts g; g.allow_unbalanced = false;
    switch (idx % 3) { case 0: g.min_modes = 2; g.max_modes = 2; break; case 1: g.min_modes = 3; g.max_modes = (idx % 6 == 1) ? 3 : 4; break; default: g.min_modes = 4; g.max_modes = 4; }
    ModelSpec m = gen_model(r, g);
    if (m.nmodes() < 2 || m.nmodes() > 4 || !m.balanced_spins()) { c.skipped = true; c.extra.set("skip", "generator did not meet the size constraints"); return; }
    Pipeline p; p.build_lattice(m);
    {
        RefED ed; ed.solve(p.ref_H());
        if (ed.herm_defect() > 1e-12 * (1 + ed.hnorm)) { c.skipped = true; c.extra.set("skip", "generated model not Hermitian"); return; }
    }
    p.build_states(PM_DEFAULT); p.build_hamiltonian(true); p.build_dm(m.beta); p.build_ops();
    const int N = p.N; const double beta = m.beta;

    // Work plan bounded by a structural cost proxy (the number of Lehmann terms of chi, hence the cost of ONE evaluation of
    // chi, grows like the 4th power of the block sizes): P4 = sum over blocks of size^4.
    double P4 = 0; long maxblk = 0;
    for (long b = 0; b < p.nblocks(); ++b) { double sz = (double)p.S->getBlockSize(Pomerol::BlockNumber((int)b)); P4 += sz * sz * sz * sz; maxblk = std::max(maxblk, (long)sz); }
    int level; size_t max_quads; std::vector<long> nms; std::vector<long> caps;     // caps[NM]: points per box, -1 = all
    const long mul = c.thorough() ? 2 : 1;
    if (N <= 2)          { level = 0; max_quads = 16; nms = {0, 1, 2, 3}; caps = {-1, -1, -1, -1}; }
    else if (P4 <= 600)  { level = 1; max_quads = 8;  nms = {0, 1, 2, 3}; caps = {-1, -1, 100 * mul, 100 * mul}; }
    else if (P4 <= 3000) { level = 2; max_quads = 3;  nms = {0, 1, 2};    caps = {30 * mul, 30 * mul, 30 * mul, 0}; }
    else                 { level = 3; max_quads = 2;  nms = {0, 1, 2};    caps = {8 * mul, 8 * mul, 8 * mul, 0}; }

    // index quadruples (in order of priority; expensive models use the first max_quads only)
    std::vector<Quad> quads;
    if (N <= 2) { for (int i = 0; i < N; ++i) for (int j = 0; j < N; ++j) for (int k = 0; k < N; ++k) for (int l = 0; l < N; ++l) quads.push_back(Quad{i, j, k, l}); }
    else {
        std::set<Quad> seen;
        auto add = [&](Quad q) { if (seen.insert(q).second) quads.push_back(q); };
        auto rnd = [&]() { return (int)r.range(0, N - 1); };
        auto other = [&](int a) { int b = (int)r.range(0, N - 2); return b >= a ? b + 1 : b; };
        int a = rnd(), b = other(a), d = rnd();
        // cross-spin: two spin projections of the same site and orbital
        std::vector<std::pair<int, int>> ud;
        for (int s = 0; s < (int)m.sites.size(); ++s) if (m.sites[(size_t)s].nspin >= 2) for (int o = 0; o < m.sites[(size_t)s].norb; ++o) ud.push_back({p.index_of(s, o, 0), p.index_of(s, o, 1)});
        std::pair<int, int> x = ud.empty() ? std::make_pair(b, a) : ud[(size_t)r.range(0, (long)ud.size() - 1)];
        Quad rq{rnd(), rnd(), rnd(), rnd()};
        add(Quad{a, b, a, b});                               // density-like
        add(Quad{x.first, x.second, x.first, x.second});     // cross-spin
        add(Quad{a, a, a, a});                               // all equal
        add(Quad{a, b, b, a});                               // exchanged
        add(Quad{a, a, b, d});                               // i == j
        add(Quad{a, b, d, d});                               // k == l
        add(Quad{x.second, x.first, x.first, x.second});
        add(rq);
        if (quads.size() > max_quads) quads.resize(max_quads);
    }
    J qj = J::arr(); for (auto& q : quads) qj.push(J::arr().push(q.i).push(q.j).push(q.k).push(q.l));
    c.model = m.describe(); c.model.set("kind", "vertex").set("quadruples", qj);
    c.canon = "vertex|" + m.canon() + "|" + qj.str();
    c.features.set("kind", "vertex").set("N", N).set("pclass", m.pclass).set("blocks", p.nblocks()).set("max_block", maxblk).set("P4", P4).set("plan_level", level).set("quadruples", (long)quads.size());
    const bool timing = std::getenv("VH_TIMING") != nullptr;   // opt-in diagnostics only (not deterministic)
    double t_compute = 0, t_eval = 0; auto now = [] { return (double)clock() / CLOCKS_PER_SEC; };

    long nt_quads = 0, n_both = 0, n_points = 0, n_vanishing_chi = 0, n_terms = 0, n_inside = 0, n_outside = 0;
    const double eps = 2.220446049250313e-16;
    for (auto& q : quads) {
        const Pomerol::AnnihilationOperator& Ci = p.Ops->getAnnihilationOperator((Pomerol::ParticleIndex)q.i);
        const Pomerol::AnnihilationOperator& Cj = p.Ops->getAnnihilationOperator((Pomerol::ParticleIndex)q.j);
        const Pomerol::CreationOperator& CXk = p.Ops->getCreationOperator((Pomerol::ParticleIndex)q.k);
        const Pomerol::CreationOperator& CXl = p.Ops->getCreationOperator((Pomerol::ParticleIndex)q.l);
        double t0 = now();
        // every second quadruple is set up "declare first": all objects (and the Vertex4 referring to them) are constructed before any of
        // them is prepared or computed - the vertex holds references, so the order of construction must not matter
        const bool declare_first = ((&q - &quads[0]) % 2 == 1);
        Pomerol::TwoParticleGF chi(*p.S, *p.H, Ci, Cj, CXk, CXl, *p.DM);
        Pomerol::GreensFunction G13(*p.S, *p.H, Ci, CXk, *p.DM);
        Pomerol::GreensFunction G24(*p.S, *p.H, Cj, CXl, *p.DM);
        Pomerol::GreensFunction G14(*p.S, *p.H, Ci, CXl, *p.DM);
        Pomerol::GreensFunction G23(*p.S, *p.H, Cj, CXk, *p.DM);
        if (!declare_first) { chi.prepare(); chi.compute(); G13.prepare(); G13.compute(); G24.prepare(); G24.compute(); G14.prepare(); G14.compute(); G23.prepare(); G23.compute(); }
        Pomerol::Vertex4 V(chi, G13, G24, G14, G23);
        if (declare_first) { G23.prepare(); G23.compute(); G14.prepare(); G14.compute(); G24.prepare(); G24.compute(); G13.prepare(); G13.compute(); chi.prepare(); chi.compute(); c.count("declare_first_quadruples"); }
        t_compute += now() - t0; t0 = now();
        if (chi.isVanishing()) ++n_vanishing_chi;
        for (auto* part : chi.parts) n_terms += (long)(part->getNumResonantTerms() + part->getNumNonResonantTerms());

        std::string kind = (q.i == q.j && q.j == q.k && q.k == q.l) ? "all-equal" : (q.i == q.j || q.k == q.l) ? "pauli-zero" : "generic";
        // window sizes in a random order: the same Vertex4 object is recomputed (grow and shrink)
        std::vector<long> order = nms;
        for (size_t z = order.size(); z > 1; --z) std::swap(order[z - 1], order[(size_t)r.range(0, (long)z - 1)]);
        std::map<Tri, cd> chi_cache;
        double max_chi = 0, max_wick = 0;
        for (long NM : order) {
            bool computed = true; std::string what;
            try { V.compute(NM); } catch (const std::exception& e) { computed = false; what = e.what(); }
            if (!c.check("compute", std::string("C15:vertex:compute-throws:") + (NM == 0 ? "N=0" : "N>0"), computed, [&] { return "Vertex4::compute(" + std::to_string(NM) + ") for quadruple " + qs(q) + " threw: " + what; })) break;
            std::vector<Tri> pts = vertex_points(r, NM, caps[(size_t)NM]);
            for (const Tri& t : pts) {
                const long n1 = t.a, n2 = t.b, n3 = t.c, n4 = n1 + n2 - n3;
                ++n_points;
                bool inside = n1 >= -NM && n1 < NM && n2 >= -NM && n2 < NM && n3 >= -NM && n3 < NM && n4 >= -NM && n4 < NM;
                if (inside) ++n_inside; else ++n_outside;
                cd vs = V(n1, n2, n3), vv = V.value(n1, n2, n3);
                auto where = [&] { return "quadruple " + qs(q) + " NM=" + std::to_string(NM) + " (n1,n2,n3)=" + ts(t) + " beta=" + fmt(beta); };
                c.check("storage-vs-value", "C15:vertex:storage-vs-value", same_bits(vs, vv), [&] {
                    std::ostringstream os; os.precision(17); os << where() << ": V(...)=(" << vs.real() << "," << vs.imag() << ") V.value(...)=(" << vv.real() << "," << vv.imag() << ")"; return os.str(); });
                // documented definition: Gamma = chi - chi0,
                //   chi0_{1234}(w1,w2;w3,w4) = beta d(w1,w4) d(w2,w3) G_14(w1) G_23(w2) - beta d(w1,w3) d(w2,w4) G_13(w1) G_24(w2),  w4 = w1+w2-w3
                auto it = chi_cache.find(t);
                cd x = (it != chi_cache.end()) ? it->second : (chi_cache[t] = chi(n1, n2, n3));
                cd t14 = 0, t13 = 0;
                if (n1 == n4 && n2 == n3) t14 = beta * G14(n1) * G23(n2);
                if (n1 == n3 && n2 == n4) t13 = beta * G13(n1) * G24(n2);
                cd chi0 = t14 - t13;
                cd ref = x - chi0;
                if (n1 == n2 && n2 == n3) ++n_both;
                max_chi = std::max(max_chi, std::abs(x)); max_wick = std::max(max_wick, std::max(std::abs(t14), std::abs(t13)));
                // 1e-13 relative to the value, plus the rounding of a three-term sum evaluated in another order
                double tol = 1e-13 * (1 + std::abs(ref)) + 8 * eps * (std::abs(x) + std::abs(t14) + std::abs(t13));
                std::string site = (n1 == n3 && n2 == n3) ? "both-deltas" : (n1 == n3) ? "delta13" : (n2 == n3) ? "delta14" : "no-delta";
                c.cmp("value-vs-definition", "C15:vertex:value-vs-definition:" + site + ":" + kind, vv, ref, tol, where);
            }
        }
        // a copy of a computed vertex keeps its own storage: recomputing the original (or the copy) with another window must not disturb the other
        if (!order.empty()) {
            const long NMa = order.back(), NMb = (NMa + 1 + (long)r.range(0, 1)) % 4, NMc = (NMb + 2) % 4;
            Pomerol::Vertex4 Vc(V);
            bool ok = true; std::string what;
            try { V.compute(NMb); } catch (const std::exception& e) { ok = false; what = e.what(); }
            c.check("compute", "C15:vertex:compute-throws:after-copy", ok, [&] { return "Vertex4::compute(" + std::to_string(NMb) + ") on the original after it was copied threw: " + what; });
            auto sweep = [&](Pomerol::Vertex4& X, long NM, const char* who) {
                for (long n1 = -NM - 1; n1 <= NM; ++n1) for (long n2 = -NM - 1; n2 <= NM; ++n2) for (long n3 = -NM - 1; n3 <= NM; ++n3) {
                    cd vs = X(n1, n2, n3), vv = X.value(n1, n2, n3);
                    c.check("storage-vs-value", std::string("C15:vertex:storage-vs-value:") + who, same_bits(vs, vv), [&] {
                        std::ostringstream os; os.precision(17); os << "quadruple " << qs(q) << " " << who << " (window " << NM << ") at (" << n1 << "," << n2 << "," << n3 << "): V(...)=(" << vs.real() << "," << vs.imag() << ") V.value(...)=(" << vv.real() << "," << vv.imag() << ")"; return os.str(); });
                } };
            if (ok) { sweep(Vc, NMa, "copy-after-original-recomputed"); sweep(V, NMb, "original-recomputed-after-copy"); }
            try { Vc.compute(NMc); sweep(V, NMb, "original-after-copy-recomputed"); sweep(Vc, NMc, "copy-recomputed"); } catch (const std::exception& e) { c.check("compute", "C15:vertex:compute-throws:copy", false, [&] { return std::string("Vertex4::compute on a copy threw: ") + e.what(); }); }
            c.count("vertex_copies");
        }
        if (max_chi > 1e-10 && max_wick > 1e-10) ++nt_quads;
        t_eval += now() - t0;
    }
    c.count("quadruples", (long)quads.size()); c.count("nontrivial_quadruples", nt_quads); c.count("points", n_points); c.count("both_delta_points", n_both); c.count("vanishing_chi", n_vanishing_chi);
    c.count("points_inside_window", n_inside); c.count("points_outside_window", n_outside);
    c.features.set("nontrivial_quadruples", nt_quads);
    c.extra.set("chi_terms", n_terms);
    if (timing) c.extra.set("timing", J::obj().set("compute_s", t_compute).set("eval_s", t_eval));
    // non-trivial: some quadruple has a non-vanishing chi AND a non-vanishing Wick term (observed magnitudes)
    c.nontrivial = nt_quads >= 1;
}

long n_storage(bool thorough) { return (long)storage_nms(thorough).size() * kPhases; }

}  // namespace

static long vertex_ncases(const std::string& tier) { bool th = (tier == "thorough"); return n_storage(th) + (th ? 720 : 3); }

static void vertex_run(Ctx& c) {
    const long ns = n_storage(c.thorough());
    if (c.k < ns) {
        std::vector<long> nms = storage_nms(c.thorough());
        long NM = nms[(size_t)(c.k / kPhases)]; int phase = (int)(c.k % kPhases);
        // dry run in a child process: an out-of-bounds access of the container must not take the batch down
        IsoResult ir = run_isolated([&]() -> std::string { Ctx s = c; storage_case(s, NM, phase); return "ok"; });
        if (!(ir.exited && ir.exit_code == 0 && ir.out == "ok")) {
            c.model = J::obj().set("kind", "storage").set("NM", NM).set("phase", phase_name(phase));
            c.canon = "storage|" + std::to_string(NM) + "|" + phase_name(phase) + "|crashed";
            c.extra.set("exhaustive", true);
            std::string what = ir.sig ? ("signal " + sig_name(ir.sig)) : (ir.out.compare(0, 4, "EXC:") == 0 ? ("exception " + ir.out.substr(4)) : ("exit code " + std::to_string(ir.exit_code)));
            c.check("no-crash", std::string("C15:storage:crash:") + (NM == 0 ? "N=0" : "N>0") + ":" + (phase == 0 ? "fresh" : "refill"), false, [&] { return "MatsubaraContainer4 fill/read sequence (NM=" + std::to_string(NM) + ", phase " + phase_name(phase) + ") ended with " + what; });
            c.nontrivial = NM >= 1;
            return;
        }
        c.check("no-crash", std::string("C15:storage:crash:") + (NM == 0 ? "N=0" : "N>0") + ":" + (phase == 0 ? "fresh" : "refill"), true, [] { return std::string(); });
        storage_case(c, NM, phase);
    } else {
        vertex_case(c, c.k - ns);
    }
}

VH_DRIVER(vertex, vertex_ncases, vertex_run);
