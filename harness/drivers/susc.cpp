// C14 - dynamical susceptibility equals its definition, including the static limit, the disconnected part and tau values.
#include "common/vh.hpp"
#include "common/pipeline.hpp"
#include "common/oracle.hpp"

using namespace vh;

static long susc_ncases(const std::string& tier) { return tier == "thorough" ? 3000 : 160; }

namespace {
// Tolerance in the library's eigenbasis.  Terms: X = A_nm B_mn, weights w_n (outer) and w_m (inner), pole P = E_m - E_n.
struct ChiTerm { cd X; double wn, wm, P; };
struct TolChi {
    std::vector<ChiTerm> zero, dropped, kept; std::vector<double> shift; std::vector<double> Pgroup; std::vector<long> kgroup;
    double beta = 1;
    void prepare(const CMat& A, const CMat& B, const RVec& E, const RVec& w, double beta_) {
        beta = beta_; const long d = E.size();
        for (long n = 0; n < d; ++n) for (long m = 0; m < d; ++m) {
            cd x = A(n, m) * B(m, n); if (std::abs(x) < 1e-300) continue;
            ChiTerm t{x, w(n), w(m), E(m) - E(n)};
            if (std::abs(t.P) < 1e-8 * (1 + 1e-6)) zero.push_back(t);
            if (std::abs(t.P) >= 1e-8 * (1 - 1e-6)) { if (std::abs(x * (t.wn - t.wm)) <= 1e-8 * (1 + 1e-6)) dropped.push_back(t); kept.push_back(t); }   // `kept`: every term outside the zero window (merging / rounding allowances apply whether or not the library keeps it)
        }
        std::sort(kept.begin(), kept.end(), [](const ChiTerm& a, const ChiTerm& b) { return a.P < b.P; });
        const double merge = 1e-8;
        for (size_t q = 0; q < kept.size(); ++q) { double p = kept[q].P, sh = 0;
            for (size_t r = q; r-- > 0;) { double dd = p - kept[r].P; if (dd < 2 * merge) sh = std::max(sh, dd); else break; }
            for (size_t r = q + 1; r < kept.size(); ++r) { double dd = kept[r].P - p; if (dd < 2 * merge) sh = std::max(sh, dd); else break; }
            shift.push_back(std::min(sh, merge) + 4e-16 * (1 + std::abs(p))); }
        size_t q = 0;
        while (q < kept.size()) { size_t e = q + 1; while (e < kept.size() && kept[e].P - kept[e - 1].P < 2 * merge) ++e;
            if (e - q >= 2) { bool cancel = false;
                for (size_t a = q; a < e && !cancel; ++a) for (size_t b = a + 1; b < e; ++b) { cd ra = kept[a].X * (kept[a].wn - kept[a].wm), rb = kept[b].X * (kept[b].wn - kept[b].wm); if ((ra * std::conj(rb)).real() < 0) { cancel = true; break; } }
                if (cancel) { Pgroup.push_back(kept[q].P); kgroup.push_back((long)(e - q) / 2); } }
            q = e; }
    }
    // C14 states no allowance for dropped terms.  Tier 1 (`strict`): the literal effect of the documented reductions (poles within 1e-8 of
    // zero treated as degenerate, like poles merged, residues <= 1e-8 dropped) is granted, but a DROPPED term only if it is negligible by
    // matrix element and weight, |A_nm B_mn| max(w_n,w_m) <= 1e-6; a term that is dropped only because w_n - w_m nearly cancels although it
    // carries weight is not covered.  Tier 2 (`literal`): every dropped residue is granted |R|/|z-P|.  A deviation above tier 1 but within
    // tier 2 is reported under the specific key "significant-term-dropped"; above tier 2 it is something else.
    static constexpr double kNegligible = 1e-6;
    double at_freq(double W, cd ref, bool literal = false) const {
        double t = 0;
        for (auto& z : zero) {   // treated as exactly degenerate: beta*w_n at W=0 (exact: w_n beta phi1(-beta P)); ignored at W != 0 (exact: X (w_m-w_n)/(iW-P))
            if (W == 0) t += std::abs(z.X) * std::max(z.wn, z.wm) * beta * beta * 1e-8;
            else t += std::abs(z.X) * std::max(z.wn, z.wm) * beta * 1e-8 / std::abs(W);
        }
        for (auto& d : dropped) { double R = std::abs(d.X) * std::abs(d.wn - d.wm); if (literal || W != 0 || std::abs(d.X) * std::max(d.wn, d.wm) <= kNegligible) t += R / std::abs(cd(-d.P, W)); }   // at W != 0 the loss is <= 1e-8*beta/2pi: C01's rule
        for (size_t k = 0; k < kept.size(); ++k) { double R = std::abs(kept[k].X) * std::abs(kept[k].wn - kept[k].wm); double dz = std::abs(cd(-kept[k].P, W));
            t += R * shift[k] / (dz * std::max(dz - shift[k], 1e-300)) + 2e-15 * std::abs(kept[k].X) * std::max(kept[k].wn, kept[k].wm) / dz; }   // merging + rounding of w_n - w_m
        for (size_t k = 0; k < Pgroup.size(); ++k) t += double(kgroup[k]) * 1e-8 / std::max(std::abs(cd(-Pgroup[k], W)) - 2e-8, 1e-300);
        return t * 1.05 + 1e-11 * (1 + std::abs(ref)) * (1 + beta);
    }
    std::string breakdown(double W) const {
        double tz = 0, td = 0, tdact = 0, tk = 0, tg = 0;
        for (auto& z : zero) tz += (W == 0) ? std::abs(z.X) * z.wn * beta * beta * std::abs(z.P) : std::abs(z.X) * std::abs(z.wm - z.wn) / std::abs(cd(-z.P, W));
        for (auto& d : dropped) { double R = std::abs(d.X) * std::abs(d.wn - d.wm); tdact += R / std::abs(cd(-d.P, W)); td += R / std::abs(cd(-d.P, W)); }
        for (size_t k = 0; k < kept.size(); ++k) { double R = std::abs(kept[k].X) * std::abs(kept[k].wn - kept[k].wm); double dz = std::abs(cd(-kept[k].P, W)); tk += R * shift[k] / (dz * std::max(dz - shift[k], 1e-300)); }
        for (size_t k = 0; k < Pgroup.size(); ++k) tg += double(kgroup[k]) * 1e-8 / std::max(std::abs(cd(-Pgroup[k], W)) - 2e-8, 1e-300);
        return " [tolerance parts: zero-pole-window " + fmt(tz) + " (" + std::to_string(zero.size()) + " terms), dropped residues " + fmt(td) + " (actual loss bound " + fmt(tdact) + ", " + std::to_string(dropped.size()) + " terms), pole merging " + fmt(tk) + " (" + std::to_string(kept.size()) + " kept), like-term cancellation " + fmt(tg) + "]";
    }
    double at_tau(double tau, cd ref, bool literal = false) const {
        double t = 0;
        for (auto& z : zero) t += std::abs(z.X) * std::max(z.wn, z.wm) * beta * 1e-8 * 1.01;          // exact w_n e^{-tau P} vs w_n, |P| < 1e-8
        for (auto& d : dropped) { double xw = std::abs(d.X) * std::max(d.wn, d.wm); if (literal || xw <= kNegligible) t += xw; }
        for (size_t k = 0; k < kept.size(); ++k) { double xw = std::abs(kept[k].X) * std::max(kept[k].wn, kept[k].wm);
            t += xw * shift[k] * beta * 1.01 + 2e-15 * xw / std::min(1.0, beta * std::abs(kept[k].P)); }
        for (size_t k = 0; k < Pgroup.size(); ++k) t += double(kgroup[k]) * 1e-8 * 1.6 * std::max(1.0, 1.0 / (beta * std::max(std::abs(Pgroup[k]) - 2e-8, 1e-300)));
        return t * 1.05 + 1e-11 * (1 + std::abs(ref));
    }
    long significant_dropped() const { long n = 0; for (auto& d : dropped) if (std::abs(d.X) * std::max(d.wn, d.wm) > kNegligible) ++n; return n; }
};
}

static void susc_run(Ctx& c) {
    Rng& r = c.rng;
    GenOpts g; g.max_modes = c.thorough() ? (r.coin(0.2) ? 6 : 5) : 4; g.beta_hi = c.thorough() ? 100.0 : 30.0;
    g.pclasses = {"generic", "integers", "equal", "atomic", "negU", "ph", "free", "neardeg", "zero", "neardeg", "atomic"};
    int pmode = (c.k % 3 == 2) ? PM_IGNORE : PM_DEFAULT;
    g.allow_unbalanced = (pmode == PM_IGNORE);
    ModelSpec m = gen_model(r, g);
    Pipeline p; p.build_lattice(m);
    CMat Href = p.ref_H(); RefED ed; ed.solve(Href);
    if (ed.herm_defect() > 1e-12 * (1 + ed.hnorm)) { c.skipped = true; return; }
    p.build_states(pmode); p.build_hamiltonian(true); p.build_dm(m.beta);
    const int N = p.N; const double beta = m.beta; const long dim = p.dim;
    c.model = m.describe(); c.canon = m.canon() + "|" + pm_name(pmode);
    c.features.set("partition", pm_name(pmode)).set("N", N).set("pclass", m.pclass).set("blocks", p.nblocks());
    Pipeline::LibBasis lb = p.lib_basis(); RVec wlib = p.lib_weights(); RVec wref = ed.weights(beta);

    // operator quadruples (a,b,c,d): A = c+_a c_b, B = c+_c c_d
    std::vector<std::array<int, 4>> quads;
    if (N <= 2) { for (int a = 0; a < N; ++a) for (int b = 0; b < N; ++b) for (int cc = 0; cc < N; ++cc) for (int d = 0; d < N; ++d) quads.push_back({a, b, cc, d}); }
    else {
        std::set<std::array<int, 4>> seen;
        auto add = [&](std::array<int, 4> q) { if (seen.insert(q).second) quads.push_back(q); };
        for (int t = 0; t < 3; ++t) { int a = (int)r.range(0, N - 1), b = (int)r.range(0, N - 1); add({a, b, b, a}); add({a, a, b, b}); }
        for (int t = 0; t < (c.thorough() ? 8 : 5); ++t) add({(int)r.range(0, N - 1), (int)r.range(0, N - 1), (int)r.range(0, N - 1), (int)r.range(0, N - 1)});
    }
    std::vector<long> ns = {0, 1, -1, 2, -3, 50, -50};
    bool use_expm = N <= 4;
    auto trace_ref = [&](const CMat& Ofock) { CMat R = ed.rot(Ofock); cd t = 0; for (long n = 0; n < dim; ++n) t += wref(n) * R(n, n); return t; };
    long nzero_terms = 0, ndropped = 0, nonzero = 0, static_deg = 0;
    std::string pk = std::string("part=") + pm_name(pmode);
    for (auto& q : quads) {
        Pomerol::QuadraticOperator A(*p.IC, *p.S, *p.H, (Pomerol::ParticleIndex)q[0], (Pomerol::ParticleIndex)q[1]); A.prepare(); A.compute();
        Pomerol::QuadraticOperator B(*p.IC, *p.S, *p.H, (Pomerol::ParticleIndex)q[2], (Pomerol::ParticleIndex)q[3]); B.prepare(); B.compute();
        Pomerol::Susceptibility chi(*p.S, *p.H, A, B, *p.DM); chi.prepare(); chi.compute();
        CMat AF = jw_quad(N, q[0], q[1]), BF = jw_quad(N, q[2], q[3]);
        CMat AR = ed.rot(AF), BR = ed.rot(BF);
        CMat AL = lb.U.adjoint() * AF * lb.U, BL = lb.U.adjoint() * BF * lb.U;
        TolChi tol; tol.prepare(AL, BL, lb.E, wlib, beta);
        nzero_terms += (long)tol.zero.size(); ndropped += (long)tol.dropped.size(); c.count("significant_dropped_terms", tol.significant_dropped()); if (!tol.zero.empty()) ++static_deg;
        std::string qs = "chi[c+_" + std::to_string(q[0]) + " c_" + std::to_string(q[1]) + "; c+_" + std::to_string(q[2]) + " c_" + std::to_string(q[3]) + "]";
        std::string ok_ = (q[0] == q[1] && q[2] == q[3]) ? "density" : "transfer";
        bool any = false;
        for (long n : ns) {
            double W = 2 * n * M_PI / beta;
            cd ref = lehmann_chi(AR, BR, ed.E, wref, beta, W);
            if (std::abs(ref) > 1e-9) any = true;
            if (use_expm && std::abs(n) <= 3) { cd r3 = expm_chi(ed, AF, BF, beta, W); c.count("oracle_crosschecks");
                if (!(std::abs(r3 - ref) <= 1e-9 * (1 + std::abs(ref)) * (1 + beta) * (1 + 0.01 * beta * ed.hnorm)))
                    c.violation("oracle", "HARNESS:oracle-disagree:susc", qs + " n=" + std::to_string(n) + " Lehmann " + fmt(ref) + " vs block exponential " + fmt(r3)); }
            auto det = [&] { return qs + "(n=" + std::to_string(n) + ") beta=" + fmt(beta) + " " + pk + " pclass=" + m.pclass + tol.breakdown(W); };
            cd lv = chi(n); double t1 = tol.at_freq(W, ref), t2 = tol.at_freq(W, ref, true);
            bool explained = std::abs(lv - ref) > t1 && std::abs(lv - ref) <= t2;     // deviation accounted for by dropped terms that are not negligible
            if (explained) c.cmp("freq-vs-definition", std::string("C14:significant-term-dropped:") + (n == 0 ? "static" : "dynamic"), lv, ref, t1, det);
            else c.cmp("freq-vs-definition", std::string("C14:freq-vs-definition:") + (n == 0 ? "static" : "dynamic") + ":" + ok_, lv, ref, t1, det);
        }
        if (any) ++nonzero;
        // imaginary time
        std::vector<double> taus = {0.0, beta, 0.5 * beta, 0.1 * beta, 0.93 * beta, r.uni(0, 1) * beta};
        for (double tau : taus) {
            cd ref = trace_tau(AR, BR, ed.E, ed.E0, beta, tau);
            cd lv = chi.of_tau(tau); double t1 = tol.at_tau(tau, ref), t2 = tol.at_tau(tau, ref, true);
            bool explained = std::abs(lv - ref) > t1 && std::abs(lv - ref) <= t2;
            c.cmp("tau-vs-definition", explained ? std::string("C14:significant-term-dropped:tau") : std::string("C14:tau-vs-definition:") + ok_, lv, ref, t1, [&] { return qs + ".of_tau(" + fmt(tau) + ") beta=" + fmt(beta) + " " + pk + " pclass=" + m.pclass + " dropped-but-significant terms: " + std::to_string(tol.significant_dropped()); });
        }
        // disconnected part, three ways of supplying <A>, <B>
        cd aA = trace_ref(AF), aB = trace_ref(BF);
        for (int way = 0; way < 3; ++way) {
            Pomerol::Susceptibility chis(*p.S, *p.H, A, B, *p.DM); chis.prepare(); chis.compute();
            Pomerol::EnsembleAverage EA(*p.S, *p.H, A, *p.DM), EB(*p.S, *p.H, B, *p.DM);
            if (way == 0) chis.subtractDisconnected();
            else if (way == 1) chis.subtractDisconnected(Pomerol::ComplexType(aA), Pomerol::ComplexType(aB));
            else chis.subtractDisconnected(EA, EB);
            std::string wk = way == 0 ? "internal" : (way == 1 ? "numbers" : "ensemble-averages");
            for (long n : {0L, 1L, -2L}) {
                cd want = (n == 0) ? beta * aA * aB : cd(0, 0);
                c.cmp("disconnected", "C14:disconnected:" + wk + ":" + (n == 0 ? "static" : "dynamic"), chi(n) - chis(n), want, 1e-9 * (1 + beta), [&] { return qs + " plain - subtracted at n=" + std::to_string(n) + " beta=" + fmt(beta); });
            }
            c.cmp("disconnected-tau", "C14:disconnected-tau:" + wk, chi.of_tau(0.3 * beta) - chis.of_tau(0.3 * beta), aA * aB, 1e-9, [&] { return qs + " of_tau plain - subtracted"; });
        }
    }
    c.count("operator_pairs", (long)quads.size()); c.count("zero_pole_terms", nzero_terms); c.count("dropped_terms", ndropped); c.count("nonzero_components", nonzero); c.count("components_with_degenerate_static_term", static_deg);
    c.features.set("has_zero_pole", nzero_terms > 0);
    c.nontrivial = nonzero > 0 && dim >= 4;
}

VH_DRIVER(susc, susc_ncases, susc_run);
