// C14 - dynamical susceptibility equals its definition, including the static limit, the disconnected part and tau values.
#include "common/vh.hpp"
#include "common/pipeline.hpp"
#include "common/oracle.hpp"
#include "common/chitol.hpp"

using namespace vh;

static long susc_ncases(const std::string& tier) { return tier == "thorough" ? 20000 : 160; }


static void susc_run(Ctx& c) {
    Rng& r = c.rng;
    GenOpts g; g.max_modes = c.thorough() ? (r.coin(0.2) ? 6 : 5) : 4; g.beta_hi = c.thorough() ? 100.0 : 30.0;
    g.pclasses = {"generic", "integers", "equal", "atomic", "negU", "ph", "free", "neardeg", "zero", "neardeg", "atomic"};
    int pmode = (c.k % 3 == 2) ? PM_IGNORE : PM_DEFAULT;
    g.allow_unbalanced = (pmode == PM_IGNORE);
    ModelSpec m = gen_model(r, g);
    const bool stress = (c.k % 6 == 5);           // beta*|pole| of several thousand: both overflow-avoiding branches of the tau formula
    if (stress) m.beta = r.logu(200, 2000);
    Pipeline p; p.build_lattice(m);
    CMat Href = p.ref_H(); RefED ed; ed.solve(Href);
    if (ed.herm_defect() > 1e-12 * (1 + ed.hnorm)) { c.skipped = true; return; }
    p.build_states(pmode); p.build_hamiltonian(true); p.build_dm(m.beta);
    const int N = p.N; const double beta = m.beta; const long dim = p.dim;
    c.model = m.describe(); c.canon = m.canon() + "|" + pm_name(pmode) + (stress ? "|stress" : "");
    c.features.set("stress", stress).set("partition", pm_name(pmode)).set("N", N).set("pclass", m.pclass).set("blocks", p.nblocks());
    Pipeline::LibBasis lb = p.lib_basis(); RVec wlib = p.lib_weights(); RVec wref = ed.weights(beta);

    // operator quadruples (a,b,c,d): A = c+_a c_b, B = c+_c c_d
    std::vector<std::array<int, 4>> quads;
    if (N <= 2) { for (int a = 0; a < N; ++a) for (int b = 0; b < N; ++b) for (int cc = 0; cc < N; ++cc) for (int d = 0; d < N; ++d) quads.push_back({a, b, cc, d}); }
    else {
        std::set<std::array<int, 4>> seen;
        auto add = [&](std::array<int, 4> q) { if (seen.insert(q).second) quads.push_back(q); };
        for (int t = 0; t < 3; ++t) { int a = (int)r.range(0, N - 1), b = (int)r.range(0, N - 1); add({a, b, b, a}); add({a, a, b, b}); }
        for (int t = 0; t < (c.thorough() ? 8 : 5); ++t) add({(int)r.range(0, N - 1), (int)r.range(0, N - 1), (int)r.range(0, N - 1), (int)r.range(0, N - 1)});
    }
    std::vector<long> ns = {0, 1, -1, 2, -3, 50, -50};
    bool use_expm = N <= 4;
    auto trace_ref = [&](const CMat& Ofock) { CMat R = ed.rot(Ofock); cd t = 0; for (long n = 0; n < dim; ++n) t += wref(n) * R(n, n); return t; };
    long nzero_terms = 0, ndropped = 0, nonzero = 0, static_deg = 0;
    std::string pk = std::string("part=") + pm_name(pmode);
    for (auto& q : quads) {
        Pomerol::QuadraticOperator A(*p.IC, *p.S, *p.H, (Pomerol::ParticleIndex)q[0], (Pomerol::ParticleIndex)q[1]); A.prepare(); A.compute();
        Pomerol::QuadraticOperator B(*p.IC, *p.S, *p.H, (Pomerol::ParticleIndex)q[2], (Pomerol::ParticleIndex)q[3]); B.prepare(); B.compute();
        Pomerol::Susceptibility chi(*p.S, *p.H, A, B, *p.DM); chi.prepare(); chi.compute();
        if (c.k % 2 == 0) { chi.compute(); chi.prepare(); chi.compute(); }   // idempotent
        Pomerol::Susceptibility chicopy(chi);
        // life cycle: copies taken at each stage and driven on by the remaining calls end up as the same function
        Pomerol::Susceptibility SA(*p.S, *p.H, A, B, *p.DM);
        Pomerol::Susceptibility SA0(SA); SA0.prepare(); SA0.compute();
        SA.prepare(); Pomerol::Susceptibility SA1(SA); SA1.compute();
        SA.compute(); Pomerol::Susceptibility SA2(SA); SA2.prepare(); SA2.compute();
        { const Pomerol::Susceptibility* cp[] = {&SA0, &SA1, &SA2}; static const char* nm[] = {"of-constructed", "of-prepared", "of-computed"};
          for (int w = 0; w < 3; ++w) for (long n : {0L, 1L, -3L}) { cd a = chi(n);
              c.cmp("copy-then-compute", std::string("C14:copy-then-compute:") + nm[w], (*cp[w])(n), a, 1e-13 * (1 + std::abs(a)), [&] { return "Susceptibility copied when " + std::string(nm[w]) + " then prepared/computed, n=" + std::to_string(n); }); } }
        CMat AF = jw_quad(N, q[0], q[1]), BF = jw_quad(N, q[2], q[3]);
        CMat AR = ed.rot(AF), BR = ed.rot(BF);
        CMat AL = lb.U.adjoint() * AF * lb.U, BL = lb.U.adjoint() * BF * lb.U;
        TolChi tol; tol.prepare(AL, BL, lb.E, wlib, beta);
        nzero_terms += (long)tol.zero.size(); ndropped += (long)tol.dropped.size(); c.count("significant_dropped_terms", tol.significant_dropped()); if (!tol.zero.empty()) ++static_deg;
        std::string qs = "chi[c+_" + std::to_string(q[0]) + " c_" + std::to_string(q[1]) + "; c+_" + std::to_string(q[2]) + " c_" + std::to_string(q[3]) + "]";
        std::string ok_ = (q[0] == q[1] && q[2] == q[3]) ? "density" : "transfer";
        bool any = false;
        for (long n : ns) {
            double W = 2 * n * M_PI / beta;
            cd ref = lehmann_chi(AR, BR, ed.E, wref, beta, W);
            if (std::abs(ref) > 1e-9) any = true;
            if (use_expm && !stress && std::abs(n) <= 3) { cd r3 = expm_chi(ed, AF, BF, beta, W); c.count("oracle_crosschecks");
                if (!(std::abs(r3 - ref) <= 1e-9 * (1 + std::abs(ref)) * (1 + beta) * (1 + 0.01 * beta * ed.hnorm)))
                    c.violation("oracle", "HARNESS:oracle-disagree:susc", qs + " n=" + std::to_string(n) + " Lehmann " + fmt(ref) + " vs block exponential " + fmt(r3)); }
            auto det = [&] { return qs + "(n=" + std::to_string(n) + ") beta=" + fmt(beta) + " " + pk + " pclass=" + m.pclass + tol.breakdown(W); };
            cd lv = chi(n); double t1 = tol.at_freq(W, ref), t2 = tol.at_freq(W, ref, true);
            bool explained = std::abs(lv - ref) > t1 && std::abs(lv - ref) <= t2;     // deviation accounted for by dropped terms that are not negligible
            if (explained) c.cmp("freq-vs-definition", std::string("C14:significant-term-dropped:") + (n == 0 ? "static" : "dynamic"), lv, ref, t1, det);
            else c.cmp("freq-vs-definition", std::string("C14:freq-vs-definition:") + (n == 0 ? "static" : "dynamic") + ":" + ok_, lv, ref, t1, det);
        }
        if (any) ++nonzero;
        // imaginary time
        std::vector<double> taus = {0.0, beta, 0.5 * beta, 0.1 * beta, 0.93 * beta, r.uni(0, 1) * beta};
        for (double tau : taus) {
            cd ref = trace_tau(AR, BR, ed.E, ed.E0, beta, tau);
            cd lv = chi.of_tau(tau); double t1 = tol.at_tau(tau, ref), t2 = tol.at_tau(tau, ref, true);
            bool explained = std::abs(lv - ref) > t1 && std::abs(lv - ref) <= t2;
            { cd cv = chicopy.of_tau(tau); c.cmp("copy-vs-original", "C14:copy-vs-original", cv, lv, 1e-14 * (1 + std::abs(lv)), [&] { return qs + " copy-constructed Susceptibility of_tau"; }); }
            c.check("tau-finite", std::string("C14:tau-finite:") + (stress ? "large-beta" : "normal"), std::isfinite(lv.real()) && std::isfinite(lv.imag()), [&] { return qs + ".of_tau(" + fmt(tau) + ") is not finite, beta=" + fmt(beta); });
            c.cmp("tau-vs-definition", explained ? std::string("C14:significant-term-dropped:tau") : std::string("C14:tau-vs-definition:") + ok_, lv, ref, t1, [&] { return qs + ".of_tau(" + fmt(tau) + ") beta=" + fmt(beta) + " " + pk + " pclass=" + m.pclass + " dropped-but-significant terms: " + std::to_string(tol.significant_dropped()); });
        }
        // disconnected part, three ways of supplying <A>, <B>
        cd aA = trace_ref(AF), aB = trace_ref(BF);
        for (int way = 0; way < 3; ++way) {
            Pomerol::Susceptibility chis(*p.S, *p.H, A, B, *p.DM); chis.prepare(); chis.compute();
            Pomerol::EnsembleAverage EA(*p.S, *p.H, A, *p.DM), EB(*p.S, *p.H, B, *p.DM);
            if (way == 0) chis.subtractDisconnected();
            else if (way == 1) chis.subtractDisconnected(Pomerol::ComplexType(aA), Pomerol::ComplexType(aB));
            else chis.subtractDisconnected(EA, EB);
            std::string wk = way == 0 ? "internal" : (way == 1 ? "numbers" : "ensemble-averages");
            for (long n : {0L, 1L, -2L}) {
                cd want = (n == 0) ? beta * aA * aB : cd(0, 0);
                c.cmp("disconnected", "C14:disconnected:" + wk + ":" + (n == 0 ? "static" : "dynamic"), chi(n) - chis(n), want, 1e-9 * (1 + beta), [&] { return qs + " plain - subtracted at n=" + std::to_string(n) + " beta=" + fmt(beta); });
            }
            c.cmp("disconnected-tau", "C14:disconnected-tau:" + wk, chi.of_tau(0.3 * beta) - chis.of_tau(0.3 * beta), aA * aB, 1e-9, [&] { return qs + " of_tau plain - subtracted"; });
        }
    }
    c.count("operator_pairs", (long)quads.size()); c.count("zero_pole_terms", nzero_terms); c.count("dropped_terms", ndropped); c.count("nonzero_components", nonzero); c.count("components_with_degenerate_static_term", static_deg);
    c.features.set("has_zero_pole", nzero_terms > 0);
    c.nontrivial = nonzero > 0 && dim >= 4;
}

VH_DRIVER(susc, susc_ncases, susc_run);
