// C19 - block truncation removes only contributions below the requested tolerance.
#include "common/vh.hpp"
#include "common/pipeline.hpp"
#include "common/oracle.hpp"

using namespace vh;

static long trunc_ncases(const std::string& tier) { return tier == "thorough" ? 96000 : 160; }

static void trunc_run(Ctx& c) {
    Rng& r = c.rng;
    GenOpts g; g.max_modes = c.thorough() ? (r.coin(0.2) ? 6 : 5) : 4; g.min_modes = 2; g.beta_lo = 1.0; g.beta_hi = 200.0;
    ModelSpec m = gen_model(r, g);
    static const double epss[] = {0.0, 1e-14, 1e-10, 1e-6, 1e-3, 1e-2, 1e-2, 1e-3, 0.3};
    const double eps = epss[r.range(0, 8)];
    int pmode = PM_DEFAULT;     // truncation acts on blocks; a single block (symmetries ignored) is never discarded
    Pipeline p; p.build_all(m, pmode);
    const int N = p.N; const double beta = m.beta; const long dim = p.dim; const long nb = p.nblocks();
    c.model = m.describe(); c.canon = m.canon() + "|eps=" + fmt(eps) + "|" + std::to_string(c.k % 97);
    Pomerol::DensityMatrix DMt(*p.S, *p.H, beta); DMt.prepare(); DMt.compute();
    // the retain flags must reflect the LAST tolerance, whatever was requested before (and a repeated request changes nothing)
    // the verbose flag only controls a printed summary: every call is made with a randomly chosen value of it
    std::string seq = "single";
    const double eps_first = std::min(0.3, eps * 1e4 + 1e-3);
    // a container of Green's functions that lives through the whole truncation history (filled and computed after the first request, again after the last)
    Pomerol::GFContainer Gold(*p.IC, *p.S, *p.H, DMt, *p.Ops);
    bool reuse = false;
    { int w = (int)r.range(0, 3);
      if (w == 1) { DMt.truncateBlocks(eps_first, r.coin()); seq = "larger-first"; if (r.coin()) { Gold.prepareAll(); Gold.computeAll(); reuse = true; } }
      else if (w == 2) { DMt.truncateBlocks(eps * 1e-3, r.coin()); seq = "smaller-first"; }
      else if (w == 3) { DMt.truncateBlocks(eps, r.coin()); seq = "repeated"; } }
    const bool last_verbose = r.coin();
    DMt.truncateBlocks(eps, last_verbose);
    seq += last_verbose ? ":verbose" : ":silent";
    Pomerol::DensityMatrix& DMf = *p.DM;
    // (1) retain rule
    long discarded = 0;
    for (long b = 0; b < nb; ++b) {
        Pomerol::BlockNumber B((int)b); double wmax = 0; long sz = (long)p.S->getBlockSize(B);
        for (long s = 0; s < sz; ++s) wmax = std::max(wmax, DMf.getPart(B).getWeight((Pomerol::InnerQuantumState)s));
        bool ret = DMt.isRetained(B); if (!ret) ++discarded;
        c.check("retain-rule", "C19:discarded-block-has-weight-above-eps:" + seq, ret || wmax <= eps, [&] { return "block " + std::to_string(b) + " discarded although its largest weight is " + fmt(wmax) + " > eps=" + fmt(eps) + " (truncateBlocks sequence: " + seq + ")"; });
        c.check("untruncated-retained", "C19:untruncated-not-retained", DMf.isRetained(B), [&] { return std::string("isRetained false without truncateBlocks"); });
    }
    if (reuse) {
        // the same container prepared and computed again after the final request must hold what a fresh one holds
        Gold.prepareAll(); Gold.computeAll();
        Pomerol::GFContainer Gnew(*p.IC, *p.S, *p.H, DMt, *p.Ops); Gnew.prepareAll(); Gnew.computeAll();
        for (int i = 0; i < N; ++i) for (int j = 0; j < N; ++j) { if (i != j && N > 3 && !r.coin(0.3)) continue;
            for (long n : {0L, -2L}) { cd a = Gnew((Pomerol::ParticleIndex)i, (Pomerol::ParticleIndex)j)(n), b = Gold((Pomerol::ParticleIndex)i, (Pomerol::ParticleIndex)j)(n);
                c.cmp("container-reused", "C19:container-reused-after-retruncation", b, a, 1e-13 * (1 + std::abs(a)), [&] { return "G_{" + std::to_string(i) + "," + std::to_string(j) + "}(n=" + std::to_string(n) + ") from a GFContainer computed at eps=" + fmt(eps_first) + " and prepared/computed again at eps=" + fmt(eps) + " vs a fresh container"; }); } }
        c.count("containers_reused");
    }
    c.features.set("reuse_container", reuse).set("sequence", seq).set("N", N).set("eps", fmt(eps)).set("blocks", nb).set("discarded_blocks", discarded).set("discarded_any", discarded > 0);
    std::string ek = eps == 0.0 ? "eps=0" : "eps>0";
    auto bound = [&](double b, cd a) { return eps == 0.0 ? 1e-15 * (1 + std::abs(a)) : b * (1 + 1e-9) + 1e-14 * (1 + std::abs(a)); };
    // (2) Green's functions
    std::vector<std::pair<int, int>> pairs; for (int i = 0; i < N; ++i) pairs.push_back({i, i});
    for (int t = 0; t < 4; ++t) { int i = (int)r.range(0, N - 1), j = (int)r.range(0, N - 1); if (i != j) pairs.push_back({i, j}); }
    long skipped_parts = 0;
    for (auto& ij : pairs) {
        const Pomerol::AnnihilationOperator& C = p.Ops->getAnnihilationOperator((Pomerol::ParticleIndex)ij.first);
        const Pomerol::CreationOperator& CX = p.Ops->getCreationOperator((Pomerol::ParticleIndex)ij.second);
        Pomerol::GreensFunction Gf(*p.S, *p.H, C, CX, DMf), Gt(*p.S, *p.H, C, CX, DMt);
        Gf.prepare(); Gf.compute(); Gt.prepare(); Gt.compute();
        for (long n : {0L, -1L, 3L, -20L}) {
            double w = std::abs((2 * n + 1) * M_PI / beta); cd a = Gf(n), b = Gt(n);
            c.cmp("gf-bound", "C19:gf-bound:" + ek, b, a, bound(2 * eps * dim / w, a), [&] { return "G_{" + std::to_string(ij.first) + "," + std::to_string(ij.second) + "}(n=" + std::to_string(n) + ") truncated vs untruncated, beta=" + fmt(beta) + " eps=" + fmt(eps) + " dim=" + std::to_string(dim); });
            if (std::abs(a - b) > 0) ++skipped_parts;
        }
        cd a = Gf.of_tau(0.37 * beta), b = Gt.of_tau(0.37 * beta);
        c.cmp("gf-tau-bound", "C19:gf-tau-bound:" + ek, b, a, bound(2 * eps * dim, a), [&] { return "G_{" + std::to_string(ij.first) + "," + std::to_string(ij.second) + "}(tau) beta=" + fmt(beta) + " eps=" + fmt(eps); });
    }
    // (3) ensemble averages and susceptibilities
    for (int t = 0; t < 4; ++t) {
        int a_ = (int)r.range(0, N - 1), b_ = (t < 2) ? a_ : (int)r.range(0, N - 1), c_ = (int)r.range(0, N - 1), d_ = (t % 2 == 0) ? c_ : (int)r.range(0, N - 1);
        if (t == 3) { c_ = b_; d_ = a_; }
        Pomerol::QuadraticOperator A(*p.IC, *p.S, *p.H, (Pomerol::ParticleIndex)a_, (Pomerol::ParticleIndex)b_); A.prepare(); A.compute();
        Pomerol::QuadraticOperator B(*p.IC, *p.S, *p.H, (Pomerol::ParticleIndex)c_, (Pomerol::ParticleIndex)d_); B.prepare(); B.compute();
        Pomerol::EnsembleAverage Ef(*p.S, *p.H, A, DMf), Et(*p.S, *p.H, A, DMt); Ef.prepare(); Et.prepare();
        c.cmp("average-bound", "C19:average-bound:" + ek, Et.getResult(), Ef.getResult(), bound(eps * dim, Ef.getResult()), [&] { return "<c+_" + std::to_string(a_) + " c_" + std::to_string(b_) + "> beta=" + fmt(beta) + " eps=" + fmt(eps); });
        Pomerol::Susceptibility Xf(*p.S, *p.H, A, B, DMf), Xt(*p.S, *p.H, A, B, DMt); Xf.prepare(); Xf.compute(); Xt.prepare(); Xt.compute();
        for (long n : {0L, 1L, -2L}) {
            double W = std::abs(2 * n * M_PI / beta); cd x = Xf(n), y = Xt(n);
            c.cmp("susceptibility-bound", "C19:susceptibility-bound:" + ek, y, x, bound(eps * dim * (n == 0 ? beta : std::max(1 / W, beta)), x), [&] { return "chi[c+_" + std::to_string(a_) + "c_" + std::to_string(b_) + ";c+_" + std::to_string(c_) + "c_" + std::to_string(d_) + "](n=" + std::to_string(n) + ") beta=" + fmt(beta) + " eps=" + fmt(eps); });
        }
        cd x = Xf.of_tau(0.61 * beta), y = Xt.of_tau(0.61 * beta);
        c.cmp("susceptibility-tau-bound", "C19:susceptibility-tau-bound:" + ek, y, x, bound(eps * dim, x), [&] { return "chi(tau) beta=" + fmt(beta) + " eps=" + fmt(eps); });
    }
    // (4) two-particle Green's function (small models only)
    if (N <= 3 || (N <= 4 && r.coin(c.thorough() ? 0.6 : 0.5))) {
        for (int t = 0; t < 3; ++t) {
            int q[4] = {(int)r.range(0, N - 1), (int)r.range(0, N - 1), 0, 0}; if (t == 0) { q[2] = q[1]; q[3] = q[0]; } else { q[2] = (int)r.range(0, N - 1); q[3] = (int)r.range(0, N - 1); }
            auto mk = [&](Pomerol::DensityMatrix& D) { return new Pomerol::TwoParticleGF(*p.S, *p.H, p.Ops->getAnnihilationOperator((Pomerol::ParticleIndex)q[0]), p.Ops->getAnnihilationOperator((Pomerol::ParticleIndex)q[1]), p.Ops->getCreationOperator((Pomerol::ParticleIndex)q[2]), p.Ops->getCreationOperator((Pomerol::ParticleIndex)q[3]), D); };
            std::unique_ptr<Pomerol::TwoParticleGF> Cf(mk(DMf)), Ct(mk(DMt));
            Cf->prepare(); Cf->compute(); Ct->prepare(); Ct->compute();
            for (int s = 0; s < 6; ++s) { long n1 = r.range(-2, 2), n2 = r.range(-2, 2), n3 = r.range(-2, 2); if (s == 0) { n2 = -1 - n1; } if (s == 1) n3 = n1;
                cd x = (*Cf)(n1, n2, n3), y = (*Ct)(n1, n2, n3);
                c.cmp("chi4-bound", "C19:chi4-bound:" + ek, y, x, bound(eps * double(dim) * double(dim) * beta * beta * beta, x), [&] { return "chi_{" + std::to_string(q[0]) + std::to_string(q[1]) + std::to_string(q[2]) + std::to_string(q[3]) + "}(" + std::to_string(n1) + "," + std::to_string(n2) + "," + std::to_string(n3) + ") beta=" + fmt(beta) + " eps=" + fmt(eps); }); }
        }
        c.count("chi4_cases");
    }
    c.count("discarded_blocks", discarded); c.count("values_changed_by_truncation", skipped_parts);
    c.nontrivial = nb >= 2 && (discarded > 0 || eps == 0.0);
}

VH_DRIVER(trunc, trunc_ncases, trunc_run);
