// C07 - the symmetry analysis yields a sound partition of Fock space for every lattice.
#include "common/vh.hpp"
#include "common/pipeline.hpp"
#include "common/oracle.hpp"
#include "common/partitions.hpp"

using namespace vh;

static long symm_ncases(const std::string& tier) { return tier == "thorough" ? 160000 : 480; }

namespace {
struct Cand { Pomerol::Operator op; std::vector<RefTerm> ref; std::string cls, desc; };

std::vector<RefTerm> rmul(const std::vector<RefTerm>& a, const std::vector<RefTerm>& b) {
    std::vector<RefTerm> o;
    for (auto& x : a) for (auto& y : b) { RefTerm t; t.val = x.val * y.val; t.ops = x.ops; t.ops.insert(t.ops.end(), y.ops.begin(), y.ops.end()); o.push_back(t); }
    return o;
}
std::vector<RefTerm> rn(int i, double coeff = 1.0) { RefTerm t; t.val = coeff; t.ops = {FOp{true, i}, FOp{false, i}}; return {t}; }
std::vector<RefTerm> rconst(double v) { RefTerm t; t.val = v; return {t}; }
std::vector<RefTerm> radd(std::vector<RefTerm> a, const std::vector<RefTerm>& b) { a.insert(a.end(), b.begin(), b.end()); return a; }
Pomerol::Operator lin_op(const std::vector<double>& a) {
    Pomerol::Operator op; for (size_t i = 0; i < a.size(); ++i) if (a[i] != 0) op += Pomerol::OperatorPresets::n((Pomerol::ParticleIndex)i) * Pomerol::MelemType(a[i]); return op;
}
std::vector<RefTerm> lin_ref(const std::vector<double>& a) { std::vector<RefTerm> r; for (size_t i = 0; i < a.size(); ++i) if (a[i] != 0) { auto t = rn((int)i, a[i]); r.push_back(t[0]); } return r; }
std::string vecstr(const std::vector<double>& a) { std::string s = "["; for (size_t i = 0; i < a.size(); ++i) { if (i) s += ","; s += fmt(a[i]); } return s + "]"; }

}

static void symm_run(Ctx& c) {
    Rng& r = c.rng;
    GenOpts g; g.max_modes = c.thorough() ? (r.coin(0.2) ? 8 : 6) : 6; g.allow_unbalanced = true; g.hetero = true;
    ModelSpec m = gen_model(r, g);
    // widely separated scales in one Hamiltonian: a frozen orbital (level 1e6) next to a tiny symmetry-breaking term (1e-9).
    // The library decides conservation symbolically with an ABSOLUTE window (100*eps on coefficients), and so do the monitors below.
    bool wide = (c.k % 8 == 7);
    if (wide) {
        int sA = (int)r.range(0, (long)m.sites.size() - 1), sB = (int)r.range(0, (long)m.sites.size() - 1);
        Op big; big.kind = Op::LEVEL; big.a = big.b = sA; big.v1 = (r.coin() ? 1 : -1) * r.logu(1e5, 1e7); m.ops.push_back(big);
        const SiteSpec& B = m.sites[(size_t)sB];
        double tiny = r.logu(1e-11, 1e-8);
        if (B.nspin >= 2 && r.coin(0.7)) { Op h; h.kind = Op::HOP4; h.a = h.b = sB; h.o1 = h.o2 = (int)r.range(0, B.norb - 1); h.s1 = 0; h.s2 = 1; h.v1 = tiny; m.ops.push_back(h); }   // transverse field: breaks S_z
        else if (m.nmodes() >= 2) {   // pair term: breaks N
            int s2 = (int)r.range(0, (long)m.sites.size() - 1); const SiteSpec& C2 = m.sites[(size_t)s2];
            RawTerm t; t.dag = {1, 1}; t.site = {sB, s2}; t.orb = {0, C2.norb - 1}; t.spin = {0, C2.nspin - 1}; t.val = tiny;
            if (!(sB == s2 && t.orb[0] == t.orb[1] && t.spin[0] == t.spin[1])) { RawTerm hc; hc.dag = {0, 0}; hc.site = {s2, sB}; hc.orb = {t.orb[1], t.orb[0]}; hc.spin = {t.spin[1], t.spin[0]}; hc.val = tiny;
                Op a; a.kind = Op::RAW; a.raw = t; Op b; b.kind = Op::RAW; b.raw = hc; m.ops.push_back(a); m.ops.push_back(b); }
        }
    }
    Pipeline p; p.build_lattice(m);
    const int N = p.N; const long dim = p.dim;
    CMat Href = p.ref_H();
    double hscale = 1 + Href.cwiseAbs().maxCoeff();
    if ((Href - Href.adjoint()).cwiseAbs().maxCoeff() > 1e-12 * hscale) { c.skipped = true; return; }
    c.model = m.describe();
    int pmode = (int)r.range(0, 3); if (pmode == 3) pmode = PM_CUSTOM;
    c.features.set("N", N).set("balanced_spins", m.balanced_spins()).set("wide_scales", wide);

    // ---- candidates for the custom mode
    std::vector<Cand> cands; std::vector<Pomerol::Operator> accepted_ops; std::set<std::string> accepted_classes; std::string caseclass = pmode == PM_DEFAULT ? "default" : (pmode == PM_IGNORE ? "ignored" : "custom-none");
    J cj = J::arr();
    if (pmode == PM_CUSTOM) {
        int nc = (int)r.range(1, 3);
        for (int q = 0; q < nc; ++q) {
            Cand cd_; int kind = (int)r.range(0, 9);
            if (kind <= 2) {                    // benign linear integer (conserved ones preferred)
                std::vector<std::vector<int>> cl = candidate_linear_ioms(p); std::vector<int> a = r.pick(cl);
                if (r.coin(0.3)) { std::vector<int> b = r.pick(cl); int u = (int)r.range(1, 3), v = (int)r.range(-2, 2); for (size_t i = 0; i < a.size(); ++i) a[i] = u * a[i] + v * b[i]; }
                std::vector<double> ad(a.begin(), a.end()); cd_.op = lin_op(ad); cd_.ref = lin_ref(ad); cd_.cls = "linear-int"; cd_.desc = "sum a_i n_i, a=" + vecstr(ad);
            } else if (kind <= 4) {             // linear with non-representable decimal coefficients
                static const double dec[] = {0.1, 0.2, 0.3, 0.7, 0.6, 0.4, 1.1, 2.3};
                std::vector<double> ad((size_t)N); for (int i = 0; i < N; ++i) ad[(size_t)i] = dec[r.range(0, 7)];
                if (r.coin(0.5)) { // per-site constant decimals: conserved whenever site charges are
                    std::map<std::string, double> per; for (int i = 0; i < N; ++i) { std::string l = p.IC->getInfo((Pomerol::ParticleIndex)i).SiteLabel; if (!per.count(l)) per[l] = dec[r.range(0, 7)]; ad[(size_t)i] = per[l]; }
                }
                cd_.op = lin_op(ad); cd_.ref = lin_ref(ad); cd_.cls = "linear-decimal"; cd_.desc = "sum a_i n_i, a=" + vecstr(ad);
            } else if (kind <= 7) {             // non-linear diagonal
                int sub = (int)r.range(0, 3);
                if (sub == 0 && N >= 2) { int i = (int)r.range(0, N - 1), j = (int)r.range(0, N - 1); if (i == j) j = (i + 1) % N;
                    cd_.op = Pomerol::OperatorPresets::n((Pomerol::ParticleIndex)i) * Pomerol::OperatorPresets::n((Pomerol::ParticleIndex)j); cd_.ref = rmul(rn(i), rn(j)); cd_.desc = "n_" + std::to_string(i) + " n_" + std::to_string(j); }
                else if (sub == 1) { std::vector<double> one((size_t)N, 1.0); cd_.op = lin_op(one) * lin_op(one); cd_.ref = rmul(lin_ref(one), lin_ref(one)); cd_.desc = "N^2"; }
                else if (sub == 2) { Pomerol::Operator par; par += Pomerol::MelemType(1.0); std::vector<RefTerm> pr = rconst(1.0);
                    for (int i = 0; i < N; ++i) { Pomerol::Operator f = Pomerol::OperatorPresets::n((Pomerol::ParticleIndex)i) * Pomerol::MelemType(-2.0); f += Pomerol::MelemType(1.0); par *= f; pr = rmul(pr, radd(rconst(1.0), rn(i, -2.0))); }
                    cd_.op = par; cd_.ref = pr; cd_.desc = "parity prod(1-2n_i)"; }
                else { std::vector<double> a((size_t)N, 0.0), b((size_t)N, 0.0); for (int i = 0; i < N; ++i) (i < (N + 1) / 2 ? a : b)[(size_t)i] = 1.0;
                    cd_.op = lin_op(a) * lin_op(b); cd_.ref = rmul(lin_ref(a), lin_ref(b)); cd_.desc = "N_A N_B"; }
                cd_.cls = "nonlinear";
            } else if (kind == 8) {             // (most likely) not conserved: a single occupation number / random linear
                std::vector<double> ad((size_t)N, 0.0); ad[(size_t)r.range(0, N - 1)] = 1.0; if (r.coin()) ad[(size_t)r.range(0, N - 1)] += 2.0;
                cd_.op = lin_op(ad); cd_.ref = lin_ref(ad); cd_.cls = "linear-int"; cd_.desc = "sum a_i n_i, a=" + vecstr(ad);
            } else {                            // conserved but not diagonal: H itself
                cd_.op = Pomerol::Operator(*p.Storage); cd_.ref = p.ref_terms(); cd_.cls = "hamiltonian"; cd_.desc = "H";
            }
            if (cd_.ref.empty() && cd_.cls != "hamiltonian") continue;
            cands.push_back(cd_);
        }
    }
    // ---- which candidates MUST be rejected (harness's own commutators), which does the library accept
    int n_must_reject = 0, n_rejected_valid = 0;
    for (auto& cd_ : cands) {
        CMat Q = jw_matrix(N, cd_.ref);
        double qs = 1 + Q.cwiseAbs().maxCoeff();
        double comm = (Href * Q - Q * Href).cwiseAbs().maxCoeff() / qs;     // absolute, like the library's symbolic test
        CMat Qoff = Q; for (long s = 0; s < dim; ++s) Qoff(s, s) = 0;
        double offd = Qoff.cwiseAbs().maxCoeff() / qs;
        bool conserved_ = comm < 1e-14, notconserved = comm > 1e-12, diag = offd < 1e-13, nondiag = offd > 1e-6;
        Pomerol::Symmetrizer probe(*p.IC, *p.Storage);
        std::vector<Pomerol::Operator> one(1, cd_.op);
        bool acc = false, threw = false; std::string what;
        try { probe.compute(one); acc = probe.getOperations().size() == 1; } catch (const std::exception& e) { threw = true; what = e.what(); }
        c.check("custom-analysis-completes", "C07:analysis-throws:custom:" + cd_.cls, !threw, [&] { return "Symmetrizer::compute({" + cd_.desc + "}) threw " + what; });
        J d = J::obj().set("desc", cd_.desc).set("cls", cd_.cls).set("commutator", comm).set("offdiag", offd).set("accepted", acc);
        cj.push(d);
        if (notconserved) { ++n_must_reject; c.check("rejects-nonconserved", "C07:accepts:not-conserved:" + cd_.cls, !acc, [&] { return "accepted " + cd_.desc + " although max|[H,Q]| = " + fmt(comm); }); }
        else if (nondiag) { ++n_must_reject; c.check("rejects-nondiagonal", "C07:accepts:non-diagonal:" + cd_.cls, !acc, [&] { return "accepted " + cd_.desc + " although it is not diagonal in the Fock basis (offdiag " + fmt(offd) + ")"; }); }
        else if (conserved_ && diag && !acc) ++n_rejected_valid;
        // only candidates that are legitimately conserved and diagonal go into the partition that is monitored below, so that an
        // acceptance defect (reported above) does not surface a second time as a partition defect
        if (cd_.cls == "hamiltonian" && diag) cd_.cls = "nonlinear";   // a diagonal H (atomic limit) is a legitimate, generally non-linear, diagonal integral of motion
        if (acc && !threw && conserved_ && diag) { accepted_ops.push_back(cd_.op); accepted_classes.insert(cd_.cls); }
    }
    // the case's class names every hostile kind among the accepted candidates (a mixed case cannot be attributed to one of them)
    if (pmode == PM_CUSTOM && !accepted_classes.empty()) {
        std::string cc; for (const char* k : {"linear-decimal", "nonlinear"}) if (accepted_classes.count(k)) cc += (cc.empty() ? "" : "+") + std::string(k);
        caseclass = cc.empty() ? "linear-int" : cc;
    }
    c.count("candidates", (long)cands.size()); c.count("must_reject", n_must_reject); c.count("rejected_valid", n_rejected_valid); c.count("accepted", (long)accepted_ops.size());
    c.features.set("mode", pm_name(pmode)).set("class", caseclass).set("candidates", cj);
    c.canon = m.canon() + "|" + pm_name(pmode) + "|" + cj.str() + (wide ? "|wide" : "");

    // ---- run the analysis (the property: completes without error on every lattice)
    try {
        if (pmode == PM_CUSTOM) p.build_states(PM_CUSTOM, accepted_ops); else p.build_states(pmode);
    } catch (const std::exception& e) {
        std::string cls = pmode == PM_DEFAULT ? (m.balanced_spins() ? "default" : "default:spin-unbalanced") : pm_name(pmode);
        std::string w = e.what();
        c.check("analysis-completes", "C07:analysis-throws:" + cls, false, [&] { return "symmetry analysis / state classification threw '" + w + "' on a valid lattice"; });
        c.nontrivial = true; return;
    }
    c.check("analysis-completes", "C07:analysis-throws:" + std::string(pm_name(pmode)), true, [] { return std::string(); });
    if (pmode == PM_CUSTOM) c.check("accept-count", "C07:accept-count", p.n_accepted_ioms == (int)accepted_ops.size(), [&] { return "accepted alone: " + std::to_string(accepted_ops.size()) + ", accepted together: " + std::to_string(p.n_accepted_ioms); });

    // ---- (1) partition / address round trip
    const long nb = p.nblocks(); c.features.set("blocks", nb);
    std::vector<int> blk((size_t)dim, -1); long covered = 0; bool partition_ok = true;
    for (long b = 0; b < nb; ++b) {
        const std::vector<Pomerol::FockState>& st = p.S->getFockStates(Pomerol::BlockNumber((int)b));
        partition_ok &= c.check("block-size", "C07:partition:block-size", p.S->getBlockSize(Pomerol::BlockNumber((int)b)) == st.size() && !st.empty(), [&] { return "block " + std::to_string(b); });
        for (size_t q = 0; q < st.size(); ++q) {
            long s = (long)st[q].to_ulong();
            bool fresh = s >= 0 && s < dim && blk[(size_t)s] == -1;
            partition_ok &= c.check("exactly-one-block", "C07:partition:state-in-two-blocks", fresh, [&] { return "state " + std::to_string(s) + " listed twice or out of range"; });
            if (fresh) { blk[(size_t)s] = (int)b; ++covered; }
        }
    }
    partition_ok &= c.check("coverage", "C07:partition:coverage", covered == dim && (long)p.S->getNumberOfStates() == dim, [&] { return std::to_string(covered) + " of " + std::to_string(dim) + " states classified"; });
    if (!partition_ok) { c.nontrivial = true; return; }
    for (long s = 0; s < dim; ++s) {
        Pomerol::BlockNumber b = p.S->getBlockNumber((Pomerol::QuantumState)s);
        Pomerol::InnerQuantumState in = p.S->getInnerState((Pomerol::QuantumState)s);
        Pomerol::FockState fs(N, (unsigned long)s);
        bool ok = (int)b == blk[(size_t)s] && (int)p.S->getBlockNumber(fs) == blk[(size_t)s] && p.S->getInnerState(fs) == in
                  && in < p.S->getBlockSize(b) && (long)p.S->getFockState(b, in).to_ulong() == s;
        c.check("address-roundtrip", "C07:partition:roundtrip", ok, [&] { return "state " + std::to_string(s) + " -> (block " + std::to_string((int)b) + ", pos " + std::to_string(in) + ") does not map back"; });
    }
    // ---- (2) H block-diagonal
    bool bd = true; long crossing = 0;
    for (long a = 0; a < dim; ++a) for (long b = 0; b < dim; ++b) if (std::abs(Href(a, b)) > 1e-13 && blk[(size_t)a] != blk[(size_t)b]) { bd = false; ++crossing; }   // absolute: an element of 1e-9 next to levels of 1e6 is still a matrix element
    c.check("block-diagonal", "C07:block-diagonal:" + caseclass, bd, [&] { return std::to_string(crossing) + " non-zero Hamiltonian matrix elements connect different blocks (class " + caseclass + ")"; });
    // ---- (3) single-target + (4) block mapping of elementary operators
    bool all_single = true;
    auto image = [&](const std::vector<FOp>& ops, std::set<std::pair<int, int>>& lr) -> bool {  // returns single-target?
        std::map<int, std::set<int>> tgt;
        for (long s = 0; s < dim; ++s) { uint64_t t = (uint64_t)s; int sg = 1; if (jw_apply(ops, t, sg)) tgt[blk[(size_t)s]].insert(blk[(size_t)t]); }
        bool single = true;
        for (auto& kv : tgt) { if (kv.second.size() > 1) single = false; for (int l : kv.second) lr.insert({l, kv.first}); }
        return single;
    };
    struct OpDesc { std::string type; std::vector<FOp> ops; int i, j; };
    std::vector<OpDesc> ods;
    for (int i = 0; i < N; ++i) { ods.push_back({"c", {FOp{false, i}}, i, -1}); ods.push_back({"cdag", {FOp{true, i}}, i, -1}); }
    for (int i = 0; i < N; ++i) for (int j = 0; j < N; ++j) if (N <= 4 || r.coin(12.0 / (N * N))) ods.push_back({"quad", {FOp{true, i}, FOp{false, j}}, i, j});
    std::map<std::string, std::set<std::pair<int, int>>> expected;
    for (auto& od : ods) {
        std::set<std::pair<int, int>> lr; bool single = image(od.ops, lr);
        all_single &= single;
        c.check("single-target", "C07:single-target:" + od.type + ":" + caseclass, single, [&] { return "operator " + od.type + "(" + std::to_string(od.i) + (od.j >= 0 ? "," + std::to_string(od.j) : "") + ") maps the states of one block into more than one block (class " + caseclass + ")"; });
        if (single) expected[od.type + std::to_string(od.i) + "," + std::to_string(od.j)] = lr;
    }
    // library's block mappings need a Hamiltonian object (only prepared, not diagonalised); H.prepare is memory-safe only when H is block-diagonal
    if (bd) {
        p.build_hamiltonian(false);
        for (auto& od : ods) {
            auto it = expected.find(od.type + std::to_string(od.i) + "," + std::to_string(od.j)); if (it == expected.end()) continue;
            std::set<std::pair<int, int>> got;
            std::shared_ptr<Pomerol::FieldOperator> fo;   // shared_ptr keeps the deleter of the dynamic type (FieldOperator has no virtual destructor)
            if (od.type == "c") fo = std::make_shared<Pomerol::AnnihilationOperator>(*p.IC, *p.S, *p.H, (Pomerol::ParticleIndex)od.i);
            else if (od.type == "cdag") fo = std::make_shared<Pomerol::CreationOperator>(*p.IC, *p.S, *p.H, (Pomerol::ParticleIndex)od.i);
            else fo = std::make_shared<Pomerol::QuadraticOperator>(*p.IC, *p.S, *p.H, (Pomerol::ParticleIndex)od.i, (Pomerol::ParticleIndex)od.j);
            fo->prepare();
            const Pomerol::FieldOperator::BlocksBimap& bm = fo->getBlockMapping();
            for (Pomerol::FieldOperator::BlocksBimap::left_const_iterator q = bm.left.begin(); q != bm.left.end(); ++q) got.insert({(int)q->first, (int)q->second});
            bool same = got == it->second;
            c.check("block-mapping", "C07:block-mapping:" + od.type + ":" + caseclass, same, [&] {
                std::string s = "getBlockMapping of " + od.type + "(" + std::to_string(od.i) + (od.j >= 0 ? "," + std::to_string(od.j) : "") + ") has " + std::to_string(got.size()) + " (left,right) pairs, independent image map has " + std::to_string(it->second.size());
                return s; });
            for (auto& lrp : got) { // look-ups consistent with the bimap
                bool ok = (int)fo->getLeftIndex(Pomerol::BlockNumber(lrp.second)) == lrp.first && (int)fo->getRightIndex(Pomerol::BlockNumber(lrp.first)) == lrp.second;
                c.check("mapping-lookup", "C07:block-mapping-lookup:" + od.type, ok, [&] { return std::string("getLeftIndex/getRightIndex disagree with getBlockMapping"); });
            }
        }
    }
    c.count("operators_checked", (long)ods.size()); c.count("blocks", nb);
    c.features.set("single_target", all_single).set("block_diagonal", bd);
    c.nontrivial = (nb >= 2 || pmode == PM_IGNORE) && N >= 2;
}

VH_DRIVER(symm, symm_ncases, symm_run);
