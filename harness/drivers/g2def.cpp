// C02 - two-particle Green's function equals its definition on both evaluation paths (on-demand terms, frequency table with and without purge).
#include "common/vh.hpp"
#include "common/pipeline.hpp"
#include "common/oracle.hpp"
#include "common/g2tol.hpp"

using namespace vh;

static long g2def_ncases(const std::string& tier) { return tier == "thorough" ? 640 : 48; }

static void g2def_run(Ctx& c) {
    Rng& r = c.rng;
    GenOpts g; g.max_modes = c.thorough() ? (r.coin(0.12) ? 5 : 4) : (r.coin(0.5) ? 4 : 3); g.min_modes = 2;
    g.beta_hi = c.thorough() ? 60.0 : 20.0; g.hetero = true;
    g.pclasses = {"generic", "integers", "equal", "atomic", "negU", "ph", "free", "neardeg", "zero", "atomic", "free", "ph"};   // degenerate classes over-represented
    ModelSpec m = gen_model(r, g);
    const bool witness18 = (c.k == 9);      // fixed input of finding #18: Hubbard dimer with Zeeman fields 1e-8 / 4e-9, symmetries ignored
    if (witness18) m = finding18_model(false);
    const bool cold = !witness18 && (c.k % 8 == 5);       // beta*(level spacing) of several hundred to a few thousand: weights underflow, exp(beta*dE) overflows
    if (cold) m.beta = r.logu(150, 1500);
    int pmode = (c.k % 4 == 3 || witness18) ? PM_IGNORE : PM_DEFAULT;
    if (!m.balanced_spins()) pmode = PM_IGNORE;
    Pipeline p; p.build_lattice(m);
    CMat Href = p.ref_H(); RefED ed; ed.solve(Href);
    if (ed.herm_defect() > 1e-12 * (1 + ed.hnorm)) { c.skipped = true; return; }
    p.build_states(pmode); p.build_hamiltonian(true); p.build_dm(m.beta); p.build_ops();
    const int N = p.N; const double beta = m.beta;
    c.model = m.describe(); c.canon = m.canon() + "|" + pm_name(pmode) + (cold ? "|cold" : "");
    Pipeline::LibBasis lb = p.lib_basis();
    G2Tol gt; gt.prepare(lb.E, beta, &lb.block);
    c.features.set("merge_vs_resonance_window", gt.straddle).set("cold", cold).set("partition", pm_name(pmode)).set("N", N).set("pclass", m.pclass).set("near_coincident_poles", gt.near).set("blocks", p.nblocks());

    // index quadruples
    std::vector<std::array<int, 4>> quads;
    auto rq = [&]() { return (int)r.range(0, N - 1); };
    quads.push_back({0, 0, 0, 0});
    { int a = rq(), b = rq(); quads.push_back({a, b, b, a}); quads.push_back({a, b, a, b}); }
    { int a = rq(); int b = (a + 1) % N; quads.push_back({a, b, b, a}); quads.push_back({a, a, b, b}); }
    int nrand = c.thorough() ? 4 : 2;
    for (int t = 0; t < nrand; ++t) quads.push_back({rq(), rq(), rq(), rq()});
    std::set<std::array<int, 4>> seenq; std::vector<std::array<int, 4>> uq; for (auto& q : quads) if (seenq.insert(q).second) uq.push_back(q);
    quads = uq;

    // frequency grids
    std::vector<std::array<long, 3>> grid;   // full grid for table / on-demand consistency
    for (long a = -2; a <= 2; ++a) for (long b = -2; b <= 2; ++b) for (long d = -2; d <= 2; ++d) grid.push_back({a, b, d});
    grid.push_back({10, -7, 3}); grid.push_back({-11, 10, 5}); grid.push_back({25, 25, 25}); grid.push_back({7, -8, 7});
    std::vector<std::array<long, 3>> osample = {{0, 0, 0}, {0, -1, 0}, {1, -2, 1}, {-1, 0, 0}, {2, 1, 2}, {1, 2, 2}, {0, 1, 1}, {-2, 1, -2}, {0, -1, -1}, {1, 1, 1}, {-1, -1, -1}, {2, -1, 0}, {10, -7, 3}, {7, -8, 7}};
    int extra = c.thorough() ? 10 : 4;
    for (int t = 0; t < extra; ++t) osample.push_back({r.range(-2, 2), r.range(-2, 2), r.range(-2, 2)});
    typedef boost::tuple<Pomerol::ComplexType, Pomerol::ComplexType, Pomerol::ComplexType> ftuple;
    std::vector<ftuple> freqs;
    auto wn = [&](long n) { return (2 * n + 1) * M_PI / beta; };
    for (auto& t : grid) freqs.push_back(boost::make_tuple(cd(0, wn(t[0])), cd(0, wn(t[1])), cd(0, wn(t[2]))));

    std::vector<CMat> cF((size_t)N), cdF((size_t)N);
    for (int i = 0; i < N; ++i) { cF[(size_t)i] = jw_c(N, i); cdF[(size_t)i] = cF[(size_t)i].adjoint(); }

    long nres = 0, nnonres = 0, n13 = 0, n23 = 0, nbz = 0, nonvanishing = 0;
    std::string pk = std::string("part=") + pm_name(pmode);
    for (auto& q : quads) {
        auto mk = [&]() { return new Pomerol::TwoParticleGF(*p.S, *p.H, p.Ops->getAnnihilationOperator((Pomerol::ParticleIndex)q[0]), p.Ops->getAnnihilationOperator((Pomerol::ParticleIndex)q[1]),
                                                            p.Ops->getCreationOperator((Pomerol::ParticleIndex)q[2]), p.Ops->getCreationOperator((Pomerol::ParticleIndex)q[3]), *p.DM); };
        std::unique_ptr<Pomerol::TwoParticleGF> A(mk()), B(mk()), C(mk());
        A->prepare(); A->compute();
        if (c.k % 2 == 1) { A->compute(); A->prepare(); A->compute(false, freqs); }   // repeated calls on a computed object must change nothing
        B->prepare(); std::vector<Pomerol::ComplexType> tabB = B->compute(false, freqs);
        C->prepare(); std::vector<Pomerol::ComplexType> tabC = C->compute(true, freqs);
        for (size_t pp = 0; pp < A->parts.size(); ++pp) { nres += (long)A->parts[pp]->getNumResonantTerms(); nnonres += (long)A->parts[pp]->getNumNonResonantTerms(); }
        std::string qs = "chi_{" + std::to_string(q[0]) + std::to_string(q[1]) + std::to_string(q[2]) + std::to_string(q[3]) + "}";
        std::string qk = (q[0] == q[1] || q[2] == q[3]) ? "equal-indices" : "distinct-indices";
        // oracle on the sample
        std::vector<cd> ref(osample.size()); double S = 0;
        for (size_t t = 0; t < osample.size(); ++t) {
            ref[t] = expm_chi4(ed, cF[(size_t)q[0]], cF[(size_t)q[1]], cdF[(size_t)q[2]], cdF[(size_t)q[3]], beta, wn(osample[t][0]), wn(osample[t][1]), wn(osample[t][2]));
            S = std::max(S, std::abs(ref[t]));
        }
        double Sfloor = 1e-3 * beta * beta * beta;   // natural scale of chi; keeps the tolerance meaningful for identically vanishing components
        double tol = gt.tol(std::max(S, Sfloor));
        if (S > 1e-9) ++nonvanishing;
        for (size_t t = 0; t < osample.size(); ++t) {
            long n1 = osample[t][0], n2 = osample[t][1], n3 = osample[t][2];
            std::string fk = (n1 + n2 == -1) ? "bosonic-zero" : (n1 == n3 && n2 == n3 ? "n1=n2=n3" : (n1 == n3 ? "n1=n3" : (n2 == n3 ? "n2=n3" : "generic")));
            if (n1 == n3) ++n13; if (n2 == n3) ++n23; if (n1 + n2 == -1) ++nbz;
            auto det = [&] { return qs + "(" + std::to_string(n1) + "," + std::to_string(n2) + "," + std::to_string(n3) + ") beta=" + fmt(beta) + " " + pk + " pclass=" + m.pclass; };
            cd la = (*A)(n1, n2, n3);
            c.cmp("ondemand-vs-definition", gt.straddle ? "C02:ondemand-vs-definition:merge-vs-resonance-window" : "C02:ondemand-vs-definition:" + fk + ":" + qk, la, ref[t], tol, det);
            cd lz = (*A)(cd(0, wn(n1)), cd(0, wn(n2)), cd(0, wn(n3)));
            c.cmp("long-vs-complex-overload", "C02:long-vs-complex-overload", lz, la, 1e-12 * std::max(S, Sfloor), det);
        }
        // tables vs on-demand on the full grid
        double Sg = Sfloor; std::vector<cd> od(grid.size());
        for (size_t t = 0; t < grid.size(); ++t) { od[t] = (*A)(grid[t][0], grid[t][1], grid[t][2]); Sg = std::max(Sg, std::abs(od[t])); }
        bool vanishing = A->isVanishing();
        for (int which = 0; which < 2; ++which) {
            const std::vector<Pomerol::ComplexType>& tab = which ? tabC : tabB;
            std::string wk = which ? "purge" : "keep";
            bool lenok = tab.size() == grid.size() || (vanishing && tab.empty());
            c.check("table-length", "C02:table-length:" + wk, lenok, [&] { return qs + ": table has " + std::to_string(tab.size()) + " entries for " + std::to_string(grid.size()) + " frequencies (vanishing=" + std::to_string(vanishing) + ")"; });
            if (!lenok) continue;
            for (size_t t = 0; t < grid.size(); ++t) {
                cd tv = tab.empty() ? cd(0, 0) : cd(tab[t]);
                c.cmp("table-vs-ondemand", "C02:table-vs-ondemand:" + wk, tv, od[t], 1e-12 * Sg, [&] { return qs + "(" + std::to_string(grid[t][0]) + "," + std::to_string(grid[t][1]) + "," + std::to_string(grid[t][2]) + ") beta=" + fmt(beta); });
            }
        }
        // object B kept its terms: on-demand evaluation must agree with A
        for (size_t t = 0; t < grid.size(); t += 7)
            c.cmp("kept-terms-vs-ondemand", "C02:kept-terms-vs-ondemand", (*B)(grid[t][0], grid[t][1], grid[t][2]), od[t], 1e-12 * Sg, [&] { return qs + " after compute(false,freqs)"; });
    }
    c.count("quadruples", (long)quads.size()); c.count("resonant_terms", nres); c.count("nonresonant_terms", nnonres);
    c.count("evals_n1_eq_n3", n13); c.count("evals_n2_eq_n3", n23); c.count("evals_bosonic_zero", nbz); c.count("nonvanishing_components", nonvanishing);
    c.features.set("resonant_terms", nres > 0);
    c.nontrivial = nres > 0 && nonvanishing > 0;
}

VH_DRIVER(g2def, g2def_ncases, g2def_run);
