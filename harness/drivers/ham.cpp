// C03 - block-wise diagonalisation reproduces the full Hamiltonian's eigen-system.
#include "common/vh.hpp"
#include "common/pipeline.hpp"
#include "common/oracle.hpp"
#include "common/partitions.hpp"

using namespace vh;

static long ham_ncases(const std::string& tier) { return tier == "thorough" ? 120000 : 320; }

static void ham_run(Ctx& c) {
    Rng& r = c.rng;
    GenOpts g; g.max_modes = c.thorough() ? (c.k % 50 == 0 ? 9 : 8) : 6; g.allow_unbalanced = true; g.allow_spin_major = true;
    g.pclasses.push_back("offset");
    ModelSpec m = gen_model(r, g);
    bool same_spins = true; for (auto& s : m.sites) same_spins = same_spins && s.nspin == m.sites[0].nspin;
    if (!same_spins) m.spin_major = false;                 // heterogeneous spin-major ordering is C18's subject
    if (m.pclass == "offset") {                            // large uniform energy offset
        double off = (r.coin() ? 1 : -1) * r.logu(1e3, 1e6);
        for (int s = 0; s < (int)m.sites.size(); ++s) { Op o; o.kind = Op::LEVEL; o.a = o.b = s; o.v1 = off; m.ops.push_back(o); }
    }
    int pmode = (int)r.range(0, 2);
    if (pmode == PM_DEFAULT && !m.balanced_spins()) pmode = PM_IGNORE;   // default analysis on such lattices is C07's subject
    Pipeline p; p.build_lattice(m);
    CMat Href = p.ref_H();
    // a constant term in the symbolic Hamiltonian (IndexHamiltonian is an Operator: H += c) shifts the whole spectrum, e.g. to strictly positive values
    double hconst = 0;
    if (r.coin(0.2)) { static const double cs[] = {5.0, -3.0, 0.75, 40.0, 1e3}; hconst = cs[r.range(0, 4)]; *p.Storage += Pomerol::MelemType(hconst); Href += hconst * CMat::Identity(Href.rows(), Href.cols()); }
    RefED ed; ed.solve(Href);
    if (ed.herm_defect() > 1e-12 * (1 + ed.hnorm)) { c.skipped = true; c.extra.set("skip", "generated model not Hermitian"); return; }
    std::vector<Pomerol::Operator> ioms; J iomdesc = J::arr();
    if (pmode == PM_CUSTOM) ioms = benign_ioms(r, p, Href, iomdesc);
    p.build_states(pmode, ioms);
    p.build_hamiltonian(false);
    c.model = m.describe(); c.model.set("constant_term_in_H", hconst); c.canon = m.canon() + "|" + pm_name(pmode) + iomdesc.str() + "|c=" + fmt(hconst);
    const long nb = p.nblocks();
    c.features.set("constant_term", hconst != 0).set("partition", pm_name(pmode)).set("ioms", iomdesc).set("blocks", nb).set("N", p.N).set("accepted_ioms", p.n_accepted_ioms);
    const double scale = 1 + ed.hnorm;
    std::string pk = std::string("part=") + pm_name(pmode);

    // (a) matrix before compute == H_ref restricted to the block
    long n1x1 = 0, maxblk = 0; bool offdiag = false;
    for (long b = 0; b < nb; ++b) {
        const Pomerol::HamiltonianPart& part = p.H->getPart(Pomerol::BlockNumber((int)b));
        const std::vector<Pomerol::FockState>& st = p.S->getFockStates(Pomerol::BlockNumber((int)b));
        const Pomerol::MatrixType& M = part.getMatrix();
        long sz = (long)st.size(); if (sz == 1) ++n1x1; maxblk = std::max(maxblk, sz);
        if (!c.check("matrix-shape", "C03:matrix-shape:" + pk, M.rows() == sz && M.cols() == sz, [&] { return "block " + std::to_string(b) + " matrix " + std::to_string(M.rows()) + "x" + std::to_string(M.cols()) + " for " + std::to_string(sz) + " states"; })) continue;
        for (long l = 0; l < sz; ++l) for (long q = 0; q < sz; ++q) {
            cd ref = Href((long)st[(size_t)l].to_ulong(), (long)st[(size_t)q].to_ulong());
            if (l != q && std::abs(ref) > 0) offdiag = true;
            c.cmp("block-matrix", "C03:block-matrix:" + pk, to_cd(M(l, q)), ref, 1e-12 * scale, [&] { return "block " + std::to_string(b) + " element (" + std::to_string(l) + "," + std::to_string(q) + ")"; });
        }
    }
    // (b) diagonalise
    p.H->compute();
    if (c.k % 2 == 0) { p.H->compute(); p.H->prepare(); p.H->compute(); }   // repeated calls on a computed Hamiltonian are no-ops
    std::vector<double> all;
    double gmin = 1e300;
    for (long b = 0; b < nb; ++b) {
        const Pomerol::HamiltonianPart& part = p.H->getPart(Pomerol::BlockNumber((int)b));
        const std::vector<Pomerol::FockState>& st = p.S->getFockStates(Pomerol::BlockNumber((int)b));
        const Pomerol::MatrixType& M = part.getMatrix();
        const Pomerol::RealVectorType& ev = part.getEigenValues();
        long sz = (long)st.size();
        if (!c.check("eig-shape", "C03:eig-shape:" + pk, ev.size() == sz && M.rows() == sz && M.cols() == sz, [&] { return "block " + std::to_string(b); })) continue;
        CMat U = CMat::Zero(p.dim, sz);
        for (long n = 0; n < sz; ++n) for (long l = 0; l < sz; ++l) U((long)st[(size_t)l].to_ulong(), n) = to_cd(M(l, n));
        CMat G = U.adjoint() * U;
        double orth = (G - CMat::Identity(sz, sz)).cwiseAbs().maxCoeff();
        std::string szk = sz == 1 ? "1x1" : "nxn";
        c.cmp("orthonormal", "C03:orthonormal:" + szk, orth, 0.0, 1e-10 * sz, [&] { return "block " + std::to_string(b) + " size " + std::to_string(sz) + " max|V+V-1|"; });
        for (long n = 0; n < sz; ++n) {
            double res = (Href * U.col(n) - ev(n) * U.col(n)).norm();
            c.cmp("residual", "C03:residual:" + szk, res, 0.0, 1e-10 * scale * std::sqrt((double)p.dim), [&] { return "block " + std::to_string(b) + " eigenpair " + std::to_string(n) + " E=" + fmt(ev(n)); });
            all.push_back(ev(n)); gmin = std::min(gmin, ev(n));
            Pomerol::VectorType es = part.getEigenState((Pomerol::InnerQuantumState)n);
            double d = 0; for (long l = 0; l < sz; ++l) d = std::max(d, std::abs(to_cd(es(l)) - to_cd(M(l, n))));
            c.cmp("eigenstate-accessor", "C03:eigenstate-accessor", d, 0.0, 0.0, [&] { return "getEigenState != column of getMatrix, block " + std::to_string(b); });
            c.cmp("eigenvalue-accessor", "C03:eigenvalue-accessor", part.getEigenValue((Pomerol::InnerQuantumState)n), ev(n), 0.0, [&] { return "part.getEigenValue"; });
        }
        c.cmp("min-eigenvalue", "C03:min-eigenvalue", part.getMinimumEigenvalue(), ev.minCoeff(), 0.0, [&] { return "block " + std::to_string(b); });
    }
    // (c) spectrum as a multiset
    if (c.check("spectrum-size", "C03:spectrum-size:" + pk, (long)all.size() == p.dim, [&] { return std::to_string(all.size()) + " eigenvalues reported for dim " + std::to_string(p.dim); })) {
        std::sort(all.begin(), all.end());
        for (long n = 0; n < p.dim; ++n)
            c.cmp("spectrum", "C03:spectrum:" + pk, all[(size_t)n], ed.E(n), 1e-10 * scale, [&] { return "sorted eigenvalue #" + std::to_string(n); });
    }
    // (d) ground energy and look-ups
    c.cmp("ground-energy", "C03:ground-energy", p.H->getGroundEnergy(), ed.E0, 1e-10 * scale, [&] { return std::string("getGroundEnergy vs min of reference spectrum"); });
    c.cmp("ground-energy-min", "C03:ground-energy-min", p.H->getGroundEnergy(), gmin, 0.0, [&] { return std::string("getGroundEnergy vs min over reported eigenvalues"); });
    Pomerol::RealVectorType cat = p.H->getEigenValues();
    if (c.check("concat-size", "C03:concat-size", cat.size() == p.dim, [&] { return std::string("Hamiltonian::getEigenValues size"); })) {
        long off = 0;
        for (long b = 0; b < nb; ++b) {
            const Pomerol::RealVectorType& ev = p.H->getPart(Pomerol::BlockNumber((int)b)).getEigenValues();
            for (long n = 0; n < ev.size(); ++n) c.cmp("concat", "C03:concat", cat(off + n), ev(n), 0.0, [&] { return "block " + std::to_string(b) + " pos " + std::to_string(n); });
            off += ev.size();
        }
    }
    for (long s = 0; s < p.dim; ++s) {
        Pomerol::BlockNumber b = p.S->getBlockNumber((Pomerol::QuantumState)s);
        Pomerol::InnerQuantumState in = p.S->getInnerState((Pomerol::QuantumState)s);
        double want = p.H->getPart(b).getEigenValues()((long)in);
        c.cmp("lookup", "C03:lookup", p.H->getEigenValue((Pomerol::QuantumState)s), want, 0.0, [&] { return "getEigenValue(" + std::to_string(s) + ")"; });
    }
    c.features.set("blocks_1x1", n1x1).set("max_block", maxblk).set("offdiag", offdiag).set("hnorm", ed.hnorm);
    c.count("blocks", nb); c.count("blocks_1x1", n1x1);
    c.nontrivial = offdiag && p.dim >= 4 && (nb >= 2 || pmode == PM_IGNORE);
}

VH_DRIVER(ham, ham_ncases, ham_run);
