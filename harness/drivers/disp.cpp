// C16 - the job dispatcher runs every job exactly once and always terminates.
// MPI driver: run under `mpiexec -np P vh disp ...`; every rank executes the same deterministic case list, world rank 0 gathers what
// every rank observed at the harness boundary (jobs executed, maps returned) and evaluates the monitors.  The guarded hooks in the
// dispatcher additionally write per-rank event logs that are checked offline (monitors/dispatch_log.py).
#include "common/vh.hpp"
#include <mpi_dispatcher/mpi_skel.hpp>
#include <mpi_dispatcher/mpi_dispatcher.hpp>
#ifdef POMEROL_VERIF
#include <mpi_dispatcher/verif_hooks.hpp>
#endif
#include <boost/serialization/vector.hpp>
#include <unistd.h>

using namespace vh;

static long disp_ncases(const std::string& tier) { return tier == "thorough" ? 120 : 28; }

namespace {
struct Exec { int group, round, job; };
std::vector<Exec>* g_exec = nullptr; int g_group = 0, g_round = 0;
struct DJob {
    int id = 0; int complexity = 1; long us = 0;
    void run() { g_exec->push_back(Exec{g_group, g_round, id}); if (us > 0) usleep((useconds_t)us); }
};
void hook_event(const char* kind, long a, long b) {
#ifdef POMEROL_VERIF
    pMPI::verif::event(kind, a, b);
#else
    (void)kind; (void)a; (void)b;
#endif
}
const char* kind_name(int k) { static const char* n[] = {"world", "dup", "split-equal-rounds", "split-unequal-rounds", "subset", "raw-boss-works", "raw-boss-idle"}; return n[k]; }
}

static void disp_run(Ctx& c) {
    boost::mpi::communicator world;
    const int P = world.size(), me = world.rank();
    Rng& r = c.rng;   // identical on all ranks
    int kind = (int)r.range(0, 6);
    // the hang-prone shapes of a split communicator are exercised in a fixed small share of the cases
    { long period = c.thorough() ? 20 : 1000; if (c.k % period == 3) kind = 3; else if (c.k % period == 5) kind = 4; else if (kind == 3 || kind == 4) kind = 2; }
    if (P == 1 && (kind == 2 || kind == 3 || kind == 4 || kind == 6)) kind = (int)(c.k % 2);
    int ngroups = (kind == 2 || kind == 3) ? std::min(P, (int)r.range(2, 3)) : 1;
    auto group_of = [&](int rank) { if (kind == 2 || kind == 3) return rank * ngroups / P; if (kind == 4) return rank < std::max(1, P / 2) ? 0 : -1; return 0; };
    std::vector<int> rounds((size_t)ngroups);
    static const int rchoices[] = {1, 1, 2, 3, 3, 10};
    int R0 = rchoices[r.range(0, 5)]; if (!c.thorough() && R0 == 10) R0 = 5;
    for (int gidx = 0; gidx < ngroups; ++gidx) rounds[(size_t)gidx] = (kind == 3) ? std::max(1, R0 + gidx) : R0;
    // jobs per (group, round)
    auto jobs_for = [&](int gsize) { static const int base[] = {0, 1, -1, 0, 1, 2}; int w = (int)r.range(0, 8);
        if (w == 0) return 0; if (w == 1) return 1; if (w == 2) return std::max(0, gsize - 1); if (w == 3) return gsize; if (w == 4) return gsize + 1; if (w == 5) return 3 * gsize + 1; if (w == 6) return 45; (void)base; return (int)r.range(0, 20); };
    std::vector<int> gsize((size_t)ngroups, 0); for (int q = 0; q < P; ++q) { int gq = group_of(q); if (gq >= 0) gsize[(size_t)gq]++; }
    struct RoundSpec { int J; std::vector<int> cx; std::vector<long> us; };
    std::vector<std::vector<RoundSpec>> spec((size_t)ngroups);
    long maxus = c.thorough() ? 1500 : 400;
    for (int gidx = 0; gidx < ngroups; ++gidx) for (int rd = 0; rd < rounds[(size_t)gidx]; ++rd) {
        RoundSpec s; s.J = jobs_for(gsize[(size_t)gidx]); bool ties = r.coin(0.4);
        for (int j = 0; j < s.J; ++j) { s.cx.push_back(ties ? (int)r.range(1, 2) : (int)r.range(1, 1000)); s.us.push_back(r.coin(0.3) ? 0 : r.range(0, maxus)); }
        spec[(size_t)gidx].push_back(s);
    }
    J desc = J::obj().set("kind", kind_name(kind)).set("P", P).set("groups", ngroups);
    { J a = J::arr(); for (int gidx = 0; gidx < ngroups; ++gidx) { J b = J::arr(); for (auto& s : spec[(size_t)gidx]) b.push(s.J); a.push(J::obj().set("size", gsize[(size_t)gidx]).set("jobs_per_round", b)); } desc.set("rounds", a); }
    c.model = desc; c.canon = desc.str() + "|" + std::to_string(c.k);
    c.features.set("kind", kind_name(kind)).set("P", P);

    std::vector<Exec> exec; g_exec = &exec;
    std::vector<int> maps;   // flattened: group, round, n, (job, worker)*n
    const int mygroup = group_of(me);
    hook_event("h_case", c.k, kind);
    if (kind <= 4) {
        boost::mpi::communicator comm = world;
        if (kind == 1) comm = boost::mpi::communicator(world, boost::mpi::comm_duplicate);
        if (kind == 2 || kind == 3) comm = world.split(mygroup);
        if (kind == 4) comm = world.split(mygroup < 0 ? 1 : 0);
        if (mygroup >= 0) {
            for (int rd = 0; rd < rounds[(size_t)mygroup]; ++rd) {
                const RoundSpec& s = spec[(size_t)mygroup][(size_t)rd];
                pMPI::mpi_skel<DJob> skel; skel.parts.resize((size_t)s.J);
                for (int j = 0; j < s.J; ++j) { skel.parts[(size_t)j].id = j; skel.parts[(size_t)j].complexity = s.cx[(size_t)j]; skel.parts[(size_t)j].us = s.us[(size_t)j]; }
                g_group = mygroup; g_round = rd;
                hook_event("h_round", mygroup * 1000 + rd, s.J);
                std::map<pMPI::JobId, pMPI::WorkerId> jm = skel.run(comm, false);
                maps.push_back(mygroup); maps.push_back(rd); maps.push_back((int)jm.size());
                for (auto& kv : jm) { maps.push_back(kv.first); maps.push_back(kv.second); }
            }
        }
    } else {
        // raw MPIMaster / MPIWorker loops as in the upstream (unbuilt) dispatcher tests
        bool boss_works = (kind == 5);
        for (int rd = 0; rd < rounds[0]; ++rd) {
            const RoundSpec& s = spec[0][(size_t)rd];
            g_group = 0; g_round = rd;
            hook_event("h_round", rd, s.J);
            std::vector<int> dm;
            if (boss_works) {
                pMPI::MPIWorker worker(world, 0);
                std::unique_ptr<pMPI::MPIMaster> disp;
                if (me == 0) { disp.reset(new pMPI::MPIMaster(world, (size_t)s.J, true)); disp->order(); }
                world.barrier();
                for (; !worker.is_finished();) {
                    if (me == 0) disp->order();
                    worker.receive_order();
                    if (worker.is_working()) { int j = worker.current_job(); exec.push_back(Exec{0, rd, j}); if (s.us[(size_t)j] > 0) usleep((useconds_t)s.us[(size_t)j]); worker.report_job_done(); }
                    if (me == 0) disp->check_workers();
                }
                if (me == 0) for (auto& kv : disp->DispatchMap) { dm.push_back(kv.first); dm.push_back(kv.second); }
            } else {
                if (me == 0) {
                    pMPI::MPIMaster master(world, (size_t)s.J, false);
                    for (; !master.is_finished();) { master.order(); master.check_workers(); }
                    for (auto& kv : master.DispatchMap) { dm.push_back(kv.first); dm.push_back(kv.second); }
                } else {
                    pMPI::MPIWorker worker(world, 0);
                    for (; !worker.is_finished();) {
                        worker.receive_order();
                        if (worker.is_working()) { int j = worker.current_job(); exec.push_back(Exec{0, rd, j}); if (s.us[(size_t)j] > 0) usleep((useconds_t)s.us[(size_t)j]); worker.report_job_done(); }
                    }
                }
            }
            world.barrier();
            if (me == 0) { maps.push_back(0); maps.push_back(rd); maps.push_back((int)dm.size() / 2); maps.insert(maps.end(), dm.begin(), dm.end()); }
        }
    }
    hook_event("h_case_done", c.k, kind);
    // ---- gather observations on world rank 0
    std::vector<int> flat; for (auto& e : exec) { flat.push_back(e.group); flat.push_back(e.round); flat.push_back(e.job); }
    std::vector<std::vector<int>> all_exec, all_maps;
    boost::mpi::gather(world, flat, all_exec, 0);
    boost::mpi::gather(world, maps, all_maps, 0);
    g_exec = nullptr;
    if (me != 0) { c.nontrivial = false; return; }
    // comm rank of a world rank inside its group (split keeps the world order)
    auto comm_rank = [&](int wr) { int gq = group_of(wr), cr = 0; for (int q = 0; q < wr; ++q) if (group_of(q) == gq) ++cr; return (kind == 2 || kind == 3 || kind == 4) ? cr : wr; };
    std::string kk = kind_name(kind);
    long total_jobs = 0, distinct_maps = 0; std::set<std::string> mapset, orderset;
    for (int gidx = 0; gidx < ngroups; ++gidx) for (int rd = 0; rd < rounds[(size_t)gidx]; ++rd) {
        const int Jn = spec[(size_t)gidx][(size_t)rd].J; total_jobs += Jn;
        std::vector<int> count((size_t)Jn, 0), who((size_t)Jn, -1); bool stray = false; std::string order;
        for (int wr = 0; wr < P; ++wr) { const std::vector<int>& f = all_exec[(size_t)wr];
            for (size_t q = 0; q + 3 <= f.size(); q += 3) { if (f[q] != gidx || f[q + 1] != rd) continue; int j = f[q + 2];
                if (group_of(wr) != gidx) stray = true;
                if (j < 0 || j >= Jn) { stray = true; continue; } count[(size_t)j]++; who[(size_t)j] = comm_rank(wr); order += std::to_string(wr) + ":" + std::to_string(j) + ","; } }
        orderset.insert(order);
        bool once = !stray; int bad = -1; for (int j = 0; j < Jn; ++j) if (count[(size_t)j] != 1) { once = false; bad = j; }
        std::string jk = Jn == 0 ? "J=0" : (Jn < gsize[(size_t)gidx] ? "J<P" : (Jn == gsize[(size_t)gidx] ? "J=P" : "J>P"));
        c.check("exactly-once", "C16:exactly-once:" + kk + ":" + jk, once, [&] { return "group " + std::to_string(gidx) + " round " + std::to_string(rd) + ": job " + std::to_string(bad) + " executed " + (bad >= 0 ? std::to_string(count[(size_t)bad]) : std::string("?")) + " times (J=" + std::to_string(Jn) + ", ranks in group " + std::to_string(gsize[(size_t)gidx]) + ")" + (stray ? " / job executed by a rank outside the group or with an unknown id" : ""); });
        // maps: identical on all ranks of the group, and naming the rank that ran the job
        std::vector<int> ref; bool have = false, same = true, right = true, complete = true; int holders = 0;
        for (int wr = 0; wr < P; ++wr) { const std::vector<int>& mm = all_maps[(size_t)wr]; size_t q = 0;
            while (q + 3 <= mm.size()) { int gq = mm[q], rq = mm[q + 1], n = mm[q + 2]; std::vector<int> cur(mm.begin() + (long)q + 3, mm.begin() + (long)q + 3 + 2L * n); q += 3 + 2 * (size_t)n;
                if (gq != gidx || rq != rd) continue; ++holders;
                if (!have) { ref = cur; have = true; } else if (cur != ref) same = false; } }
        if (have) { std::string ms; std::set<int> keys;
            for (size_t q = 0; q + 1 < ref.size(); q += 2) { int j = ref[q], w = ref[q + 1]; keys.insert(j); ms += std::to_string(j) + ">" + std::to_string(w) + ","; if (j < 0 || j >= Jn || who[(size_t)j] != w) right = false; }
            complete = (int)keys.size() == Jn; mapset.insert(ms); }
        int expect_holders = (kind >= 5) ? 1 : gsize[(size_t)gidx];
        c.check("map-on-every-rank", "C16:map-missing:" + kk, holders == expect_holders, [&] { return "group " + std::to_string(gidx) + " round " + std::to_string(rd) + ": " + std::to_string(holders) + " ranks returned a map, expected " + std::to_string(expect_holders); });
        c.check("map-agreement", "C16:map-differs-between-ranks:" + kk + ":" + jk, same, [&] { return "group " + std::to_string(gidx) + " round " + std::to_string(rd) + ": the job->rank maps returned on different ranks differ"; });
        c.check("map-names-executor", "C16:map-wrong-executor:" + kk + ":" + jk, right && complete, [&] { return "group " + std::to_string(gidx) + " round " + std::to_string(rd) + ": returned map does not name the rank that actually ran each job (J=" + std::to_string(Jn) + ")"; });
    }
    distinct_maps = (long)mapset.size();
    c.count("rounds", [&] { long t = 0; for (int gidx = 0; gidx < ngroups; ++gidx) t += rounds[(size_t)gidx]; return t; }());
    c.count("jobs", total_jobs); c.count("distinct_job_rank_maps", distinct_maps); c.count("distinct_execution_orders", (long)orderset.size());
    J ms = J::arr(); for (auto& s : mapset) if (ms.a.size() < 40) ms.push(s); c.extra.set("maps", ms);
    c.nontrivial = total_jobs > 0 && P >= 1;
}

VH_DRIVER(disp, disp_ncases, disp_run);
