// C10 - eigenbasis field operators are the rotated operators and obey the CAR.
#include "common/vh.hpp"
#include "common/pipeline.hpp"
#include "common/oracle.hpp"
#include "common/partitions.hpp"

using namespace vh;

static long fieldop_ncases(const std::string& tier) { return tier == "thorough" ? 12000 : 200; }

namespace {
template <class SM> CMat dense_of(const SM& e) {
    CMat B = CMat::Zero(e.rows(), e.cols());
    for (int k = 0; k < e.outerSize(); ++k) for (typename SM::InnerIterator it(e, k); it; ++it) B(it.row(), it.col()) = to_cd(it.value());
    return B;
}
// assemble sum_parts U_to * part * U_from^+ in Fock space from the stored sparse blocks; which: 0 = row-major copy, 1 = col-major copy
CMat assemble(const Pipeline& p, const Pipeline::LibBasis& lb, Pomerol::FieldOperator& fo, int which, bool& shape_ok) {
    CMat M = CMat::Zero(p.dim, p.dim); shape_ok = true;
    const std::vector<Pomerol::FieldOperatorPart*>& parts = fo.getParts();
    for (size_t q = 0; q < parts.size(); ++q) {
        Pomerol::FieldOperatorPart& part = *parts[q];
        int L = (int)part.getLeftIndex(), R = (int)part.getRightIndex();
        long offL = lb.offset[(size_t)L], offR = lb.offset[(size_t)R];
        long szL = (long)p.S->getBlockSize(Pomerol::BlockNumber(L)), szR = (long)p.S->getBlockSize(Pomerol::BlockNumber(R));
        CMat B = CMat::Zero(szL, szR);
        if (which == 0) { const Pomerol::RowMajorMatrixType& e = part.getRowMajorValue(); if (e.rows() != szL || e.cols() != szR) { shape_ok = false; continue; }
            for (int k = 0; k < e.outerSize(); ++k) for (Pomerol::RowMajorMatrixType::InnerIterator it(e, k); it; ++it) B(it.row(), it.col()) = to_cd(it.value()); }
        else { const Pomerol::ColMajorMatrixType& e = part.getColMajorValue(); if (e.rows() != szL || e.cols() != szR) { shape_ok = false; continue; }
            for (int k = 0; k < e.outerSize(); ++k) for (Pomerol::ColMajorMatrixType::InnerIterator it(e, k); it; ++it) B(it.row(), it.col()) = to_cd(it.value()); }
        M += lb.U.block(0, offL, p.dim, szL) * B * lb.U.block(0, offR, p.dim, szR).adjoint();
    }
    return M;
}
}

static void fieldop_run(Ctx& c) {
    Rng& r = c.rng;
    GenOpts g; g.max_modes = c.thorough() ? (r.coin(0.15) ? 7 : 6) : 5; g.allow_unbalanced = true;
    ModelSpec m = gen_model(r, g);
    int pmode = (int)r.range(0, 2);
    Pipeline p; p.build_lattice(m);
    CMat Href = p.ref_H(); RefED ed; ed.solve(Href);
    if (ed.herm_defect() > 1e-12 * (1 + ed.hnorm)) { c.skipped = true; return; }
    std::vector<Pomerol::Operator> ioms; J iomdesc = J::arr();
    if (pmode == PM_CUSTOM) ioms = benign_ioms(r, p, Href, iomdesc);
    p.build_states(pmode, ioms); p.build_hamiltonian(true);
    const int N = p.N; const long dim = p.dim;
    c.model = m.describe(); c.canon = m.canon() + "|" + pm_name(pmode) + iomdesc.str();
    Pipeline::LibBasis lb = p.lib_basis();
    // degenerate spectrum?
    std::vector<double> es(ed.E.data(), ed.E.data() + dim); bool degenerate = false; for (long n = 1; n < dim; ++n) if (std::abs(es[(size_t)n] - es[(size_t)n - 1]) < 1e-9) degenerate = true;
    c.features.set("partition", pm_name(pmode)).set("N", N).set("blocks", p.nblocks()).set("degenerate", degenerate);
    std::string pk = std::string("part=") + pm_name(pmode);
    const double tol = 1e-10 * std::sqrt((double)dim) + 1e-19 * dim;   // pruning threshold of the sparse copies is 1e-8*1e-12 per element

    // --- one by one
    std::vector<CMat> Cone((size_t)N), CXone((size_t)N);
    for (int i = 0; i < N; ++i) {
        Pomerol::CreationOperator CX(*p.IC, *p.S, *p.H, (Pomerol::ParticleIndex)i); CX.prepare(); CX.compute();
        Pomerol::AnnihilationOperator C(*p.IC, *p.S, *p.H, (Pomerol::ParticleIndex)i); C.prepare(); C.compute();
        if (c.k % 2 == 0) { C.prepare(); C.compute(); CX.prepare(); CX.compute(); }
        CMat refC = jw_c(N, i), refCX = refC.adjoint();
        for (int which = 0; which < 2; ++which) {
            bool ok1, ok2; CMat a = assemble(p, lb, C, which, ok1), b = assemble(p, lb, CX, which, ok2);
            c.check("shape", "C10:part-shape:single", ok1 && ok2, [&] { return std::string("stored block has the wrong shape"); });
            std::string wk = which ? "colmajor" : "rowmajor";
            c.cmp("rotate-back", "C10:rotate-back:c:single:" + wk + ":" + pk, (a - refC).norm(), 0.0, tol, [&] { return "c_" + std::to_string(i) + " rotated back to Fock space vs Jordan-Wigner matrix (Frobenius norm of the difference)"; });
            c.cmp("rotate-back", "C10:rotate-back:cdag:single:" + wk + ":" + pk, (b - refCX).norm(), 0.0, tol, [&] { return "c+_" + std::to_string(i) + " rotated back"; });
            if (which == 0) { Cone[(size_t)i] = a; CXone[(size_t)i] = b; }
            c.cmp("adjoint", "C10:adjoint:single:" + wk, (a - b.adjoint()).norm(), 0.0, tol, [&] { return "stored c_" + std::to_string(i) + " vs adjoint of stored c+_" + std::to_string(i); });
        }
    }
    // --- copies of computed parts (by value, as a user collecting parts in a std::vector would make them) hold the same two matrices
    {
        int i = (int)r.range(0, N - 1);
        Pomerol::CreationOperator CX(*p.IC, *p.S, *p.H, (Pomerol::ParticleIndex)i); CX.prepare(); CX.compute();
        Pomerol::AnnihilationOperator C(*p.IC, *p.S, *p.H, (Pomerol::ParticleIndex)i); C.prepare(); C.compute();
        std::vector<Pomerol::CreationOperatorPart> vx; std::vector<Pomerol::AnnihilationOperatorPart> vc;
        for (auto* q : CX.getParts()) vx.push_back(*static_cast<Pomerol::CreationOperatorPart*>(q));
        for (auto* q : C.getParts()) vc.push_back(*static_cast<Pomerol::AnnihilationOperatorPart*>(q));
        auto same = [&](Pomerol::FieldOperatorPart& cp, Pomerol::FieldOperatorPart& orig, const char* who) {
            cp.compute();      // computed already: must change nothing
            CMat r0 = dense_of(orig.getRowMajorValue()), c0 = dense_of(orig.getColMajorValue());
            const Pomerol::RowMajorMatrixType& rm = cp.getRowMajorValue(); const Pomerol::ColMajorMatrixType& cm = cp.getColMajorValue();
            bool shape = rm.rows() == r0.rows() && rm.cols() == r0.cols() && cm.rows() == c0.rows() && cm.cols() == c0.cols();
            c.check("part-copy", std::string("C10:part-copy:shape:") + who, shape, [&] { return std::string("copy of a computed part of ") + who + "_" + std::to_string(i) + ": row-major " + std::to_string(rm.rows()) + "x" + std::to_string(rm.cols()) + ", col-major " + std::to_string(cm.rows()) + "x" + std::to_string(cm.cols()) + ", original " + std::to_string(r0.rows()) + "x" + std::to_string(r0.cols()); });
            if (!shape) return;
            c.cmp("part-copy", std::string("C10:part-copy:rowmajor:") + who, (dense_of(rm) - r0).norm(), 0.0, 0.0, [&] { return std::string("row-major matrix of a copied part of ") + who; });
            c.cmp("part-copy", std::string("C10:part-copy:colmajor:") + who, (dense_of(cm) - c0).norm(), 0.0, 0.0, [&] { return std::string("col-major matrix of a copied part of ") + who; });
            c.check("part-copy", std::string("C10:part-copy:indices:") + who, (int)cp.getLeftIndex() == (int)orig.getLeftIndex() && (int)cp.getRightIndex() == (int)orig.getRightIndex(), [&] { return std::string("block indices of a copied part differ"); });
        };
        for (size_t q = 0; q < vx.size(); ++q) same(vx[q], *CX.getParts()[q], "c+");
        for (size_t q = 0; q < vc.size(); ++q) same(vc[q], *C.getParts()[q], "c");
        c.count("part_copies", (long)(vx.size() + vc.size()));
    }
    // --- container (annihilation parts filled from adjoints)
    p.build_ops();
    std::vector<CMat> Cc((size_t)N), CXc((size_t)N);
    for (int i = 0; i < N; ++i) {
        Pomerol::AnnihilationOperator& C = const_cast<Pomerol::AnnihilationOperator&>(p.Ops->getAnnihilationOperator((Pomerol::ParticleIndex)i));
        Pomerol::CreationOperator& CX = const_cast<Pomerol::CreationOperator&>(p.Ops->getCreationOperator((Pomerol::ParticleIndex)i));
        CMat refC = jw_c(N, i), refCX = refC.adjoint();
        for (int which = 0; which < 2; ++which) {
            bool ok1, ok2; CMat a = assemble(p, lb, C, which, ok1), b = assemble(p, lb, CX, which, ok2);
            c.check("shape", "C10:part-shape:container", ok1 && ok2, [&] { return std::string("stored block has the wrong shape"); });
            std::string wk = which ? "colmajor" : "rowmajor";
            c.cmp("rotate-back", "C10:rotate-back:c:container:" + wk + ":" + pk, (a - refC).norm(), 0.0, tol, [&] { return "container c_" + std::to_string(i) + " rotated back"; });
            c.cmp("rotate-back", "C10:rotate-back:cdag:container:" + wk + ":" + pk, (b - refCX).norm(), 0.0, tol, [&] { return "container c+_" + std::to_string(i) + " rotated back"; });
            c.cmp("adjoint", "C10:adjoint:container:" + wk, (a - b.adjoint()).norm(), 0.0, tol, [&] { return "container c_" + std::to_string(i) + " vs adjoint of c+"; });
            if (which == 0) { Cc[(size_t)i] = a; CXc[(size_t)i] = b; }
        }
        // per-part adjoint relation in the eigenbasis (not only after assembling)
        const Pomerol::FieldOperator::BlocksBimap& bm = CX.getBlockMapping();
        for (Pomerol::FieldOperator::BlocksBimap::left_const_iterator q = bm.left.begin(); q != bm.left.end(); ++q) {
            Pomerol::FieldOperatorPart& px = CX.getPartFromLeftIndex(q->first);
            bool has = (int)C.getRightIndex(q->second) == (int)q->first;   // c maps left block of c+ back to its right block
            c.check("adjoint-mapping", "C10:adjoint-mapping:container", has && (int)C.getLeftIndex(q->first) == (int)q->second, [&] { return "block mapping of c_" + std::to_string(i) + " is not the transpose of that of c+"; });
            if (!has) continue;
            Pomerol::FieldOperatorPart& pc = C.getPartFromRightIndex(q->first);
            CMat X = dense_of(px.getRowMajorValue()), Y = dense_of(pc.getColMajorValue());
            if (X.rows() == Y.cols() && X.cols() == Y.rows())
                c.cmp("adjoint-part", "C10:adjoint-part:container", (Y - X.adjoint()).norm(), 0.0, 1e-12 * std::sqrt((double)dim), [&] { return "part of c_" + std::to_string(i) + " vs adjoint of the part of c+"; });
            else c.check("adjoint-part-shape", "C10:adjoint-part:shape", false, [&] { return std::string("shapes do not match"); });
        }
    }
    // --- CAR assembled over all blocks (both routes)
    for (int route = 0; route < 2; ++route) {
        std::vector<CMat>& C = route ? Cc : Cone; std::vector<CMat>& CX = route ? CXc : CXone;
        std::string rk = route ? "container" : "single";
        for (int i = 0; i < N; ++i) for (int j = 0; j < N; ++j) {
            CMat ac = C[(size_t)i] * CX[(size_t)j] + CX[(size_t)j] * C[(size_t)i];
            if (i == j) ac -= CMat::Identity(dim, dim);
            c.cmp("car", "C10:car:c-cdag:" + rk, ac.norm(), 0.0, 1e-9 * std::sqrt((double)dim), [&] { return "{c_" + std::to_string(i) + ", c+_" + std::to_string(j) + "} - delta"; });
            if (j >= i) { CMat cc = C[(size_t)i] * C[(size_t)j] + C[(size_t)j] * C[(size_t)i];
                c.cmp("car", "C10:car:c-c:" + rk, cc.norm(), 0.0, 1e-9 * std::sqrt((double)dim), [&] { return "{c_" + std::to_string(i) + ", c_" + std::to_string(j) + "}"; }); }
        }
    }
    // --- quadratic operators
    long nq = 0;
    for (int i = 0; i < N; ++i) for (int j = 0; j < N; ++j) {
        if (N > 3 && !r.coin(9.0 / (N * N))) continue;
        Pomerol::QuadraticOperator Q(*p.IC, *p.S, *p.H, (Pomerol::ParticleIndex)i, (Pomerol::ParticleIndex)j); Q.prepare(); Q.compute();
        for (int which = 0; which < 2; ++which) { bool ok; CMat a = assemble(p, lb, Q, which, ok);
            c.cmp("rotate-back", std::string("C10:rotate-back:quad:") + (which ? "colmajor" : "rowmajor") + ":" + pk, (a - jw_quad(N, i, j)).norm(), 0.0, tol, [&] { return "c+_" + std::to_string(i) + " c_" + std::to_string(j) + " rotated back"; }); }
        ++nq;
    }
    c.count("operators", 4L * N + nq);
    c.nontrivial = dim >= 4 && ed.hnorm > 0 && (Href - CMat(Href.diagonal().asDiagonal())).norm() > 0;
}

VH_DRIVER(fieldop, fieldop_ncases, fieldop_run);
