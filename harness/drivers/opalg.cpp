// C05 - the symbolic operator algebra (Pomerol::Operator, OperatorPresets::N/Sz) faithfully represents the fermionic algebra.
//
// Reference: an operator is a list of RefTerm (unordered monomials, jw.hpp) and its dense 2^M x 2^M matrix jw_matrix(M, terms);
// results of algebraic operations are formed with dense matrix algebra.  The library operator is built from the same unordered
// monomials only through the public API (c, c_dag, n, *, +, -, scalars) and observed (1) through actRight / getMatrixElement on
// every Fock state and (2) by mapping its stored monomials (begin()/end()) through jw_matrix.
//
// Case kinds by ranges of c.k (see layout()):  mono | pair | triple | car | cpair | shortcut | equality | random | wide.
// Non-trivial rule: the case is part of an exhaustive enumeration (mono, pair, triple, car, cpair) or it evaluated at least one library
// product / commutator whose two operands both had >= 2 stored monomials.
#include "common/vh.hpp"
#include "common/jw.hpp"
#include "common/isolate.hpp"
#include <algorithm>
#include <limits>

using namespace vh;
namespace PO = Pomerol::OperatorPresets;
typedef Pomerol::Operator LOp;
typedef Pomerol::FockState FS;
typedef std::vector<RefTerm> Poly;
typedef std::function<std::string()> Desc;

// ------------------------------------------------------------------------------------------------ small helpers
static std::string mono_str(const std::vector<FOp>& ops) {
    if (ops.empty()) return "1";
    std::string s;
    for (size_t k = 0; k < ops.size(); ++k) { if (k) s += " "; s += ops[k].dag ? "c+" : "c"; s += std::to_string(ops[k].idx); }
    return s;
}
static std::string cstr(const cd& v) {
    char b[80];
    if (v.imag() == 0) snprintf(b, 80, "%.17g", v.real()); else snprintf(b, 80, "(%.17g,%.17g)", v.real(), v.imag());
    return b;
}
static std::string poly_str(const Poly& p, size_t maxterms = 12) {
    if (p.empty()) return "0";
    std::string s;
    for (size_t k = 0; k < p.size() && k < maxterms; ++k) { if (k) s += " + "; s += cstr(p[k].val) + "*[" + mono_str(p[k].ops) + "]"; }
    if (p.size() > maxterms) s += " + ...(" + std::to_string(p.size()) + " terms)";
    return s;
}
static J poly_json(const Poly& p) {
    J a = J::arr();
    for (auto& t : p) a.push(J::obj().set("coef", t.val).set("ops", mono_str(t.ops)));
    return a;
}
static double sumabs(const Poly& p) { double s = 0; for (auto& t : p) s += std::abs(t.val); return std::max(1.0, s); }
static Poly poly_scaled(const Poly& p, cd a) { Poly q = p; for (auto& t : q) t.val *= a; return q; }
static Poly poly_sum(const Poly& a, const Poly& b) { Poly q = a; q.insert(q.end(), b.begin(), b.end()); return q; }
static Poly poly_prod(const Poly& a, const Poly& b) {
    Poly q;
    for (auto& x : a) for (auto& y : b) { RefTerm t; t.ops = x.ops; t.ops.insert(t.ops.end(), y.ops.begin(), y.ops.end()); t.val = x.val * y.val; q.push_back(t); }
    return q;
}
static double maxabs(const CMat& m) { return m.size() ? m.cwiseAbs().maxCoeff() : 0.0; }
static std::string where_max(const CMat& d) {
    if (!d.size()) return "";
    Eigen::Index r = 0, q = 0; d.cwiseAbs().maxCoeff(&r, &q);
    return "largest deviation at <" + std::to_string((long)r) + "|.|" + std::to_string((long)q) + ">";
}

// coefficient table: well separated values, so that every exact non-zero combination is far above the library's erase window
// (100*eps) and every exact zero falls far below it.  Entries 12.. are complex in the complex build (real stand-ins otherwise);
// the PRNG consumption is identical in all flavours.
static const int kNCoef = 18;
static cd coef_at(int i) {
    static const double re[12] = {1, -1, 0.5, -0.5, 2, -2, 1.0 / 3, -1.0 / 3, 3, -3, 0.25, 1.5};
    if (i < 12) return cd(re[i], 0);
#ifdef VH_CPLX
    static const cd cx[6] = {cd(0, 1), cd(0, -1), cd(0.5, 0.5), cd(0.5, -0.5), cd(0, 2), cd(1.0 / 3, -1.0 / 3)};
#else
    static const cd cx[6] = {cd(1, 0), cd(-1, 0), cd(0.5, 0), cd(-0.5, 0), cd(2, 0), cd(1.0 / 3, 0)};
#endif
    return cx[i - 12];
}
static cd pick_coef(Rng& r) { return coef_at((int)r.range(0, kNCoef - 1)); }

// ------------------------------------------------------------------------------------------------ library side: construction
static LOp lib_factor(const FOp& f) { return f.dag ? PO::c_dag((Pomerol::ParticleIndex)f.idx) : PO::c((Pomerol::ParticleIndex)f.idx); }
static LOp lib_const(const cd& v) { return LOp() + to_melem(v); }
static LOp fold_balanced(const std::vector<LOp>& f, size_t lo, size_t hi) {   // product of f[lo..hi)
    if (hi - lo == 1) return f[lo];
    size_t mid = lo + (hi - lo) / 2;
    return fold_balanced(f, lo, mid) * fold_balanced(f, mid, hi);
}
// unit-coefficient product of the factors; style&3: 0 left fold with *=, 1 right fold, 2 balanced, 3 left fold with binary *;
// style&4: use the preset n(i) for an adjacent pair c+_i c_i
static LOp lib_mono(const std::vector<FOp>& ops, int style) {
    if (ops.empty()) return lib_const(1.0);
    std::vector<LOp> f;
    for (size_t k = 0; k < ops.size(); ++k) {
        if ((style & 4) && k + 1 < ops.size() && ops[k].dag && !ops[k + 1].dag && ops[k].idx == ops[k + 1].idx) { f.push_back(PO::n((Pomerol::ParticleIndex)ops[k].idx)); ++k; }
        else f.push_back(lib_factor(ops[k]));
    }
    switch (style & 3) {
    case 0: { LOp acc = f[0]; for (size_t k = 1; k < f.size(); ++k) acc *= f[k]; return acc; }
    case 1: { LOp acc = f.back(); for (size_t k = f.size() - 1; k-- > 0;) acc = f[k] * acc; return acc; }
    case 2: return fold_balanced(f, 0, f.size());
    default: { LOp acc = f[0]; for (size_t k = 1; k < f.size(); ++k) acc = acc * f[k]; return acc; }
    }
}
static LOp lib_term(const RefTerm& t, int style, int cstyle) {
    LOp m = lib_mono(t.ops, style);
    Pomerol::MelemType v = to_melem(t.val);
    switch (cstyle % 3) {
    case 0: return m * v;
    case 1: return v * m;
    default: m *= v; return m;
    }
}
// sum of the terms in the given order, each added through a randomly chosen public route
static LOp lib_poly(const Poly& p, Rng& r) {
    LOp A;
    for (auto& t : p) {
        int style = (int)r.range(0, 7), cstyle = (int)r.range(0, 2), astyle = (int)r.range(0, 4);
        bool via_scalar = r.coin();
        if (t.ops.empty() && via_scalar) {
            Pomerol::MelemType v = to_melem(t.val);
            switch (astyle) {
            case 0: A += v; break;
            case 1: A = A + v; break;
            case 2: A = v + A; break;
            case 3: A -= (-v); break;
            default: A = A - (-v); break;
            }
        } else {
            LOp T = lib_term(t, style, cstyle);
            switch (astyle) {
            case 0: A += T; break;
            case 1: A = A + T; break;
            case 2: A = T + A; break;
            case 3: A -= (-T); break;
            default: A = A - (-T); break;
            }
        }
    }
    return A;
}
static LOp lib_poly_plain(const Poly& p) {   // deterministic route without PRNG
    LOp A;
    for (auto& t : p) A += lib_term(t, 0, 0);
    return A;
}

// ------------------------------------------------------------------------------------------------ library side: observation
static long n_stored(const LOp& op) { return (long)std::distance(op.begin(), op.end()); }

// stored monomials -> reference terms; reports normal ordering and index range
static Poly stored_poly(const LOp& op, int M, bool& normal, bool& in_range) {
    Poly out; normal = true; in_range = true;
    for (LOp::const_iterator it = op.begin(); it != op.end(); ++it) {
        RefTerm t; t.val = to_cd(it->second);
        int prev_type = -1; long prev_idx = -1;
        for (size_t k = 0; k < it->first.size(); ++k) {
            bool dag = (boost::get<0>(it->first[k]) == LOp::creation);
            long idx = (long)boost::get<1>(it->first[k]);
            if (idx < 0 || idx >= M) in_range = false;
            int type = dag ? 0 : 1;
            if (k > 0 && !(prev_type < type || (prev_type == type && prev_idx < idx))) normal = false;
            prev_type = type; prev_idx = idx;
            t.ops.push_back(FOp{dag, (int)idx});
        }
        out.push_back(t);
    }
    return out;
}
static std::string op_str(const LOp& op, size_t maxterms = 10) {
    bool a, b; Poly p = stored_poly(op, 1 << 20, a, b);
    return "{" + poly_str(p, maxterms) + "}";
}

// matrix through actRight on all kets (virtual call through the reference)
static CMat act_matrix(const LOp& op, int M, bool& sizes_ok) {
    const long dim = 1L << M; CMat L = CMat::Zero(dim, dim); sizes_ok = true;
    for (long s = 0; s < dim; ++s) {
        FS ket((size_t)M, (unsigned long)s);
        std::map<FS, Pomerol::MelemType> out = op.actRight(ket);
        for (std::map<FS, Pomerol::MelemType>::const_iterator it = out.begin(); it != out.end(); ++it) {
            if ((long)it->first.size() != M) { sizes_ok = false; continue; }
            L((long)it->first.to_ulong(), s) += to_cd(it->second);
        }
    }
    return L;
}

struct ObsResult { long nmono = 0; };

// Both observation routes of one library operator against the reference matrix.
//   keys: C05:<what>-matrix:<kind> (actRight), C05:<what>-melem:<kind> (getMatrixElement(bra,ket)), C05:<what>-stored:<kind>
//   (stored monomials through jw_matrix), C05:normal-order:<what>:<kind>, C05:actRight-state-size:<what>:<kind>
static ObsResult observe(Ctx& c, const LOp& op, int M, const CMat& ref, double scale, const std::string& what, const std::string& kind, const Desc& desc) {
    ObsResult res; res.nmono = n_stored(op);
    const long dim = 1L << M; const double tol = 1e-12 * scale;
    bool sizes_ok = true;
    CMat L = act_matrix(op, M, sizes_ok);
    c.check("actRight-state-size", "C05:actRight-state-size:" + what + ":" + kind, sizes_ok, [&] { return desc() + ": actRight returned a state whose size is not the number of modes"; });
    {
        CMat D = L - ref;
        c.cmp(what + "-matrix", "C05:" + what + "-matrix:" + kind, maxabs(D), 0.0, tol, [&] { return desc() + ": actRight matrix vs reference, " + where_max(D) + "; stored=" + op_str(op); });
    }
    // getMatrixElement(bra, ket): all pairs for dim <= 16, otherwise three bras per ket chosen from the reference column
    {
        double worst = 0; long wb = 0, wk = 0; cd wl = 0, wr = 0;
        auto probe = [&](long b, long s) {
            cd v = to_cd(op.getMatrixElement(FS((size_t)M, (unsigned long)b), FS((size_t)M, (unsigned long)s)));
            double d = std::abs(v - ref(b, s));
            if (!(d <= worst)) { worst = std::isfinite(d) ? d : 1e300; wb = b; wk = s; wl = v; wr = ref(b, s); }
        };
        if (dim <= 16) { for (long s = 0; s < dim; ++s) for (long b = 0; b < dim; ++b) probe(b, s); }
        else {
            for (long s = 0; s < dim; ++s) {
                Eigen::Index bm = 0; ref.col(s).cwiseAbs().maxCoeff(&bm);
                probe((long)bm, s); probe(s, s); probe((s * 7 + 3) % dim, s);
            }
        }
        c.cmp(what + "-melem", "C05:" + what + "-melem:" + kind, worst, 0.0, tol, [&] {
            return desc() + ": getMatrixElement(<" + std::to_string(wb) + "|,|" + std::to_string(wk) + ">)=" + cstr(wl) + " reference " + cstr(wr) + "; stored=" + op_str(op); });
    }
    // stored monomials
    bool normal = true, in_range = true;
    Poly st = stored_poly(op, M, normal, in_range);
    c.check("stored-index-range", "C05:stored-index-range:" + what + ":" + kind, in_range, [&] { return desc() + ": a stored monomial carries a mode index outside [0,M): " + op_str(op); });
    c.check("normal-order", "C05:normal-order:" + what + ":" + kind, normal, [&] { return desc() + ": a stored monomial is not in normal order (creators ascending, then annihilators ascending): " + op_str(op); });
    if (in_range) {
        CMat D = jw_matrix(M, st) - ref;
        c.cmp(what + "-stored", "C05:" + what + "-stored:" + kind, maxabs(D), 0.0, tol, [&] { return desc() + ": matrix of the stored monomials vs reference, " + where_max(D) + "; stored=" + op_str(op); });
    }
    return res;
}

// to be called first inside a forked child: fatal signals take their default action (no MPI back-trace printer)
// (kept under ASan, whose own SEGV handler writes the wanted report)
static void child_default_signals() {
#if !defined(__SANITIZE_ADDRESS__)
    signal(SIGSEGV, SIG_DFL); signal(SIGBUS, SIG_DFL); signal(SIGABRT, SIG_DFL); signal(SIGFPE, SIG_DFL); signal(SIGILL, SIG_DFL);
#endif
}

// White-box prediction (from Operator.cpp: std::equal over the lhs monomial) of whether operator==(L,R) dereferences past the end
// of a shorter rhs monomial.  Used only to count the event and to decide about isolation under ASan; never used as an oracle.
static bool predicted_overread(const LOp& L, const LOp& R) {
    if (n_stored(L) != n_stored(R)) return false;
    const double w = 100 * std::numeric_limits<double>::epsilon();
    LOp::const_iterator il = L.begin(), ir = R.begin();
    for (; il != L.end(); ++il, ++ir) {
        const LOp::monomial_t& lm = il->first; const LOp::monomial_t& rm = ir->first;
        size_t j = 0;
        for (; j < lm.size(); ++j) { if (j >= rm.size()) return true; if (!(lm[j] == rm[j])) break; }
        if (j < lm.size()) return false;
        if (!(std::abs(to_cd(ir->second) - to_cd(il->second)) < w)) return false;
    }
    return false;
}

static bool rounding_safe(const LOp& X, const LOp& Y, double noise_scale);

// operator==(L,R).  When the comparison is predicted to run past the end of an rhs monomial the call is made in a forked child:
// with an empty rhs monomial the library dereferences a null pointer (SIGSEGV in every build), otherwise it reads foreign heap
// memory (a report under ASan).  false return = the call did not complete; the event is reported under <key>:crash.
static bool lib_eq(Ctx& c, const LOp& L, const LOp& R, bool& res, bool& over, const std::string& key, const Desc& desc) {
    over = predicted_overread(L, R);
    if (over) {
        c.count("eq_overread_predicted");
        IsoResult ir = run_isolated([&]() { child_default_signals(); return std::string((L == R) ? "1" : "0"); }, 20);
        bool ok = ir.exited && ir.exit_code == 0 && (ir.out == "1" || ir.out == "0");
        c.check("equality-crash", key + ":crash", ok, [&] {
            return desc() + ": operator==(lhs,rhs) (an lhs monomial is longer than the rhs monomial at the same position) died in an isolated child: " +
                   (ir.exited ? "exit code " + std::to_string(ir.exit_code) : sig_name(ir.sig)) + "; lhs=" + op_str(L) + " rhs=" + op_str(R); });
        if (!ok) { c.count("eq_crashed"); return false; }
        res = (ir.out == "1"); return true;
    }
    res = (L == R);
    return true;
}
static void eq_check(Ctx& c, const LOp& L, const LOp& R, bool expect, const std::string& key, const Desc& desc, double noise_scale = 1.0) {
    if (expect && !rounding_safe(L, R, noise_scale)) { c.count("eq_skipped_rounding"); return; }
    bool res = false, over = false;
    if (!lib_eq(c, L, R, res, over, key, desc)) return;
    c.count(res ? "eq_true" : "eq_false"); c.count(expect ? "eq_expect_true" : "eq_expect_false");
    c.check("equality", key, res == expect, [&] {
        return desc() + ": operator==(lhs,rhs) returned " + (res ? "true" : "false") + " but the matrices are " + (expect ? "equal" : "different") +
               (over ? " [an lhs monomial is longer than the rhs monomial at the same position: the comparison reads past its end]" : "") + "; lhs=" + op_str(L) + " rhs=" + op_str(R); });
}
// Rounding guard.  The library compares coefficients with an ABSOLUTE tolerance of 100*eps.  An expected-equal verdict is judged only
// when rounding noise cannot reach that window: either all stored coefficients of both operands are dyadic rationals (multiples of
// 2^-10 below 2^10: every product and sum is then exact in double precision), or the sum of |contributions| to any coefficient
// (bounded by noise_scale) is at most 12 (noise <= a few eps * 12 << 100 eps).  Otherwise the probe is counted and skipped.
static bool dyadic(const LOp& op) {
    for (LOp::const_iterator it = op.begin(); it != op.end(); ++it) {
        cd v = to_cd(it->second);
        for (double x : {v.real(), v.imag()}) { if (!(std::abs(x) < 1024.0)) return false; double y = x * 1024.0; if (y != std::floor(y)) return false; }
    }
    return true;
}
static double stored_sumabs(const LOp& op) { double t = 0; for (LOp::const_iterator it = op.begin(); it != op.end(); ++it) t += std::abs(to_cd(it->second)); return t; }
static bool rounding_safe(const LOp& X, const LOp& Y, double noise_scale) { return (dyadic(X) && dyadic(Y)) || noise_scale <= 12.0; }

static bool has_zero_coefficient_term(const LOp& op) {
    for (LOp::const_iterator it = op.begin(); it != op.end(); ++it) if (std::abs(to_cd(it->second)) < 100 * std::numeric_limits<double>::epsilon()) return true;
    return false;
}
static bool mats_equal(const CMat& a, const CMat& b) { return maxabs(a - b) < 1e-10; }

// X = A; X -= X must give the empty operator.  operator-=(Operator const&) iterates over the argument's map while erasing from its
// own, which is the same map here: run in a child so that a crash or a hang is an observation of this call.
static void self_subtract_check(Ctx& c, const LOp& A, const Desc& desc) {
    IsoResult ir = run_isolated([&]() { child_default_signals(); LOp X = A; X -= X; return "n=" + std::to_string(n_stored(X)); }, 5);
    bool ok = ir.exited && ir.exit_code == 0 && ir.out == "n=0";
    c.count(ok ? "self_subtract_ok" : "self_subtract_bad");
    c.check("self-subtract", "C05:self-subtract:aliasing", ok, [&] {
        return desc() + " X=A; X-=X: " + (ir.exited ? (ir.exit_code == 0 ? "result " + ir.out + " (expected an empty operator)" : "child exit code " + std::to_string(ir.exit_code)) : (ir.timed_out ? std::string("did not terminate within 5 s") : "child died with " + sig_name(ir.sig))) + "; A=" + op_str(A); });
}

// X.commutes(Y) against the reference commutator; pairs with an ambiguous commutator norm are skipped and counted
static void commutes_check(Ctx& c, const LOp& X, const LOp& Y, const CMat& mx, const CMat& my, double scale, const std::string& pairclass, const Desc& desc) {
    const double dim = (double)mx.rows();
    double nrm = (mx * my - my * mx).norm();
    double zero_tol = 1e-13 * scale * dim;
    if (nrm > zero_tol && nrm < 1e-6) { c.count("commutes_skipped_ambiguous"); return; }
    bool expect = nrm <= zero_tol;
    if (expect && !rounding_safe(X, Y, stored_sumabs(X) * stored_sumabs(Y))) { c.count("commutes_skipped_rounding"); return; }
    LOp XY = X * Y, YX = Y * X;   // only to predict an over-read inside the library's comparison of the two products
    bool over = predicted_overread(XY, YX);
    if (over) c.count("commutes_overread_predicted");
    if (n_stored(X) >= 2 && n_stored(Y) >= 2) c.count("multi_products");
    bool res = false;
    if (over) {
        IsoResult ir = run_isolated([&]() { child_default_signals(); return std::string(X.commutes(Y) ? "1" : "0"); }, 20);
        bool ok = ir.exited && ir.exit_code == 0 && (ir.out == "1" || ir.out == "0");
        c.check("commutes-crash", "C05:commutes:crash", ok, [&] {
            return desc() + " [" + pairclass + "]: X.commutes(Y) died in an isolated child (" + (ir.exited ? "exit code " + std::to_string(ir.exit_code) : sig_name(ir.sig)) +
                   "); X=" + op_str(X) + " Y=" + op_str(Y) + " X*Y=" + op_str(XY) + " Y*X=" + op_str(YX); });
        if (!ok) { c.count("commutes_crashed"); return; }
        res = (ir.out == "1");
    } else res = X.commutes(Y);
    c.count(res ? "commutes_true" : "commutes_false"); c.count(expect ? "commutes_expect_true" : "commutes_expect_false");
    // an operand that carries a stored monomial with a (near-)zero coefficient is a separate input class (see C05:equality:explicit-zero-term)
    bool zterm = has_zero_coefficient_term(X) || has_zero_coefficient_term(Y);
    if (zterm) c.count("commutes_operand_with_zero_term");
    c.check("commutes", std::string("C05:commutes:disagrees:") + (zterm ? "operand-with-zero-coefficient-term" : (res ? "claims-commuting" : "claims-noncommuting")), res == expect, [&] {
        return desc() + " [" + pairclass + "]: X.commutes(Y) returned " + (res ? "true" : "false") + " but ||[X,Y]|| = " + fmt(nrm) +
               (over ? " [comparison of X*Y with Y*X reads past the end of a shorter monomial]" : "") + "; X=" + op_str(X) + " Y=" + op_str(Y) + " X*Y=" + op_str(XY) + " Y*X=" + op_str(YX); });
}

// ------------------------------------------------------------------------------------------------ enumeration of monomials
struct MonoEnum {   // all monomials of length <= maxlen over M modes (letters 0..M-1: c+_a, M..2M-1: c_{a-M}), ordered by length
    int M, maxlen; std::vector<long> cnt;   // cnt[l] = number of monomials of length <= l
    MonoEnum(int M_, int maxlen_) : M(M_), maxlen(maxlen_) { long p = 1, s = 0; for (int l = 0; l <= maxlen; ++l) { s += p; cnt.push_back(s); p *= 2 * M; } }
    long total() const { return cnt.back(); }
    long upto(int l) const { return l < 0 ? 0 : cnt[(size_t)std::min(l, maxlen)]; }
    int length_of(long i) const { int l = 0; while (i >= cnt[(size_t)l]) ++l; return l; }
    std::vector<FOp> get(long i) const {
        int l = length_of(i); long off = i - upto(l - 1);
        std::vector<FOp> ops((size_t)l);
        for (int k = l - 1; k >= 0; --k) { int a = (int)(off % (2 * M)); off /= 2 * M; ops[(size_t)k] = FOp{a < M, a % M}; }
        return ops;
    }
};
static long ipow(long b, int e) { long p = 1; for (int k = 0; k < e; ++k) p *= b; return p; }
static long pair_total(int M, int L) { MonoEnum e(M, L); long t = 0; for (int l1 = 0; l1 <= L; ++l1) t += ipow(2 * M, l1) * e.upto(L - l1); return t; }
static void pair_locate(int M, int L, long local, long& i1, long& i2) {
    MonoEnum e(M, L);
    for (int l1 = 0; l1 <= L; ++l1) {
        long part = e.upto(L - l1), blk = ipow(2 * M, l1) * part;
        if (local < blk) { i1 = e.upto(l1 - 1) + local / part; i2 = local % part; return; }
        local -= blk;
    }
    i1 = i2 = 0;
}

struct Layout {
    int L = 4, tripleM = 2;
    long BM = 128, BP = 256, BT = 512;
    long totMono[4] = {0, 0, 0, 0}, totPair[4] = {0, 0, 0, 0}, totTriple[4] = {0, 0, 0, 0};
    long totCpair[4] = {0, 0, 0, 0};   // structured two-term operators: ordered pairs for commutes()
    long sumMono = 0, sumPair = 0, sumTriple = 0, sumCpair = 0, BC = 1024;
    long nMono = 0, nPair = 0, nTriple = 0, nCar = 6, nCpair = 0, nShort = 0, nEq = 0, nRand = 0, nWide = 0;
    long total() const { return nMono + nPair + nTriple + nCar + nCpair + nShort + nEq + nRand + nWide; }
};
static Layout layout(const std::string& tier) {
    Layout y; bool th = (tier == "thorough");
    y.L = th ? 6 : 4; y.tripleM = th ? 3 : 2; y.BP = th ? 2048 : 256; y.BT = th ? 2048 : 512;
    for (int M = 1; M <= 3; ++M) {
        y.totMono[M] = MonoEnum(M, 4).total(); y.sumMono += y.totMono[M];
        y.totPair[M] = pair_total(M, y.L); y.sumPair += y.totPair[M];
        if (M <= y.tripleM) { long n = MonoEnum(M, 2).total(); y.totTriple[M] = n * n * n; y.sumTriple += y.totTriple[M]; }
    }
    y.BC = th ? 4096 : 1024;
    for (int M = 2; M <= (th ? 3 : 2); ++M) { long nb = 1 + 3 * M, nc = nb + 3 * nb * nb; y.totCpair[M] = nc * nc; y.sumCpair += y.totCpair[M]; }
    y.nCpair = (y.sumCpair + y.BC - 1) / y.BC;
    y.nMono = (y.sumMono + y.BM - 1) / y.BM; y.nPair = (y.sumPair + y.BP - 1) / y.BP; y.nTriple = (y.sumTriple + y.BT - 1) / y.BT;
    y.nShort = th ? 400 : 60; y.nEq = th ? 1500 : 150; y.nRand = th ? 15000 : 1500;
    y.nWide = th ? 2000 : 120;
    return y;
}
static long opalg_ncases(const std::string& tier) { return layout(tier).total(); }

// flat index over the segments M=1,2,3 -> (M, local)
static void seg_locate(const long tot[4], long flat, int& M, long& local) {
    for (M = 1; M <= 3; ++M) { if (flat < tot[M]) { local = flat; return; } flat -= tot[M]; }
    M = 3; local = 0;
}

// cache of reference matrices of enumerated monomials
struct MonoCache {
    MonoEnum e; std::map<long, CMat> mats;
    MonoCache(int M, int L) : e(M, L) {}
    const CMat& mat(long i) {
        std::map<long, CMat>::iterator it = mats.find(i);
        if (it != mats.end()) return it->second;
        RefTerm t; t.ops = e.get(i); t.val = 1;
        return mats.insert(std::make_pair(i, jw_matrix(e.M, {t}))).first->second;
    }
};

// ------------------------------------------------------------------------------------------------ kind: exhaustive monomials
static void run_mono(Ctx& c, const Layout& y, long j) {
    long from = j * y.BM, to = std::min(y.sumMono, (j + 1) * y.BM);
    c.features.set("kind", "mono");
    c.model.set("kind", "exhaustive-monomial").set("from", from).set("to", to).set("maxlen", 4);
    c.canon = "mono:" + std::to_string(from) + "-" + std::to_string(to);
    long done = 0, vanishing = 0;
    for (long flat = from; flat < to; ++flat) {
        int M; long i; seg_locate(y.totMono, flat, M, i);
        MonoEnum e(M, 4);
        std::vector<FOp> ops = e.get(i);
        RefTerm t; t.ops = ops; t.val = 1;
        CMat ref = jw_matrix(M, {t});
        if (maxabs(ref) == 0) ++vanishing;
        Desc d = [&] { return "M=" + std::to_string(M) + " monomial " + mono_str(ops); };
        LOp a = lib_mono(ops, 0), b = lib_mono(ops, 1), g = lib_mono(ops, 2 | 4);
        observe(c, a, M, ref, 1.0, "monomial", "exhaustive", [&] { return d() + " (left fold with *=)"; });
        observe(c, b, M, ref, 1.0, "monomial", "exhaustive", [&] { return d() + " (right fold)"; });
        observe(c, g, M, ref, 1.0, "monomial", "exhaustive", [&] { return d() + " (balanced product, n(i) preset for adjacent c+_i c_i)"; });
        eq_check(c, a, b, true, "C05:equality:same-product-different-association", [&] { return d() + " left fold vs right fold"; });
        eq_check(c, a, g, true, "C05:equality:same-product-different-association", [&] { return d() + " left fold vs balanced/n-preset"; });
        // the public static actRight(monomial, ket) on the raw (not normal-ordered, possibly mode-repeating) monomial
        LOp::monomial_t raw;
        for (auto& f : ops) raw.push_back(boost::make_tuple(f.dag ? LOp::creation : LOp::annihilation, (Pomerol::ParticleIndex)f.idx));
        const long dim = 1L << M; double worst = 0; long ws = 0; std::string wdesc;
        for (long s = 0; s < dim; ++s) {
            FS out; Pomerol::MelemType v;
            boost::tie(out, v) = LOp::actRight(raw, FS((size_t)M, (unsigned long)s));
            uint64_t r = (uint64_t)s; int sg = 1; bool alive = jw_apply(ops, r, sg);
            double dd;
            if (!alive) dd = (out.size() == 0 || std::abs(to_cd(v)) == 0) ? 0 : 1;
            else dd = ((long)out.size() == M && out.to_ulong() == r) ? std::abs(to_cd(v) - cd((double)sg, 0)) : 1;
            if (dd > worst) { worst = dd; ws = s; }
        }
        c.cmp("actRight-static", "C05:actRight-static:exhaustive", worst, 0.0, 1e-12, [&] { return d() + ": static Operator::actRight(monomial, ket=" + std::to_string(ws) + ") differs from the Jordan-Wigner action"; });
        ++done;
    }
    c.extra.set("enumerated", done).set("enum_total", y.sumMono).set("vanishing", vanishing);
    c.count("enum_mono", done);
    c.nontrivial = done > 0;
}

// ------------------------------------------------------------------------------------------------ kind: exhaustive pairs
static void run_pair(Ctx& c, const Layout& y, long j) {
    long from = j * y.BP, to = std::min(y.sumPair, (j + 1) * y.BP);
    c.features.set("kind", "pair");
    c.model.set("kind", "exhaustive-product").set("from", from).set("to", to).set("max_total_length", y.L);
    c.canon = "pair:" + std::to_string(y.L) + ":" + std::to_string(from) + "-" + std::to_string(to);
    std::unique_ptr<MonoCache> cache[4];
    for (int M = 1; M <= 3; ++M) cache[M].reset(new MonoCache(M, y.L));
    long done = 0, zero_products = 0;
    for (long flat = from; flat < to; ++flat) {
        int M; long local; seg_locate(y.totPair, flat, M, local);
        long i1, i2; pair_locate(M, y.L, local, i1, i2);
        MonoCache& mc = *cache[M];
        std::vector<FOp> o1 = mc.e.get(i1), o2 = mc.e.get(i2);
        const CMat& m1 = mc.mat(i1); const CMat& m2 = mc.mat(i2);
        Desc d = [&] { return "M=" + std::to_string(M) + " A=" + mono_str(o1) + " B=" + mono_str(o2); };
        LOp A = lib_mono(o1, (int)(flat & 3)), B = lib_mono(o2, (int)((flat >> 2) & 3));
        CMat p = m1 * m2;
        if (maxabs(p) == 0) ++zero_products;
        LOp P = A * B;
        observe(c, P, M, p, 1.0, "product", "exhaustive", [&] { return d() + " A*B"; });
        LOp Q = A; Q *= B;
        eq_check(c, Q, P, true, "C05:equality:inplace-vs-binary-product", [&] { return d() + " (X=A; X*=B) vs A*B"; });
        CMat q = m2 * m1;
        observe(c, A.getCommutator(B), M, p - q, 2.0, "commutator", "exhaustive", [&] { return d() + " A.getCommutator(B)"; });
        observe(c, A.getAntiCommutator(B), M, p + q, 2.0, "anticommutator", "exhaustive", [&] { return d() + " A.getAntiCommutator(B)"; });
        commutes_check(c, A, B, m1, m2, 1.0, "monomial pair", d);
        ++done;
    }
    c.extra.set("enumerated", done).set("enum_total", y.sumPair).set("zero_products", zero_products);
    c.count("enum_pair", done);
    c.nontrivial = done > 0;
}

// ------------------------------------------------------------------------------------------------ kind: exhaustive triples
static void run_triple(Ctx& c, const Layout& y, long j) {
    long from = j * y.BT, to = std::min(y.sumTriple, (j + 1) * y.BT);
    c.features.set("kind", "triple");
    c.model.set("kind", "exhaustive-associativity").set("from", from).set("to", to).set("max_modes", y.tripleM);
    c.canon = "triple:" + std::to_string(y.tripleM) + ":" + std::to_string(from) + "-" + std::to_string(to);
    std::unique_ptr<MonoCache> cache[4];
    for (int M = 1; M <= 3; ++M) cache[M].reset(new MonoCache(M, 2));
    long done = 0;
    for (long flat = from; flat < to; ++flat) {
        int M; long local; seg_locate(y.totTriple, flat, M, local);
        MonoCache& mc = *cache[M]; long n = mc.e.total();
        long i1 = local / (n * n), i2 = (local / n) % n, i3 = local % n;
        std::vector<FOp> o1 = mc.e.get(i1), o2 = mc.e.get(i2), o3 = mc.e.get(i3);
        Desc d = [&] { return "M=" + std::to_string(M) + " A=" + mono_str(o1) + " B=" + mono_str(o2) + " C=" + mono_str(o3); };
        LOp A = lib_mono(o1, 0), B = lib_mono(o2, 0), C = lib_mono(o3, 0);
        LOp L1 = (A * B) * C, L2 = A * (B * C);
        CMat ref = mc.mat(i1) * mc.mat(i2) * mc.mat(i3);
        observe(c, L1, M, ref, 1.0, "assoc-left", "exhaustive", [&] { return d() + " (A*B)*C"; });
        observe(c, L2, M, ref, 1.0, "assoc-right", "exhaustive", [&] { return d() + " A*(B*C)"; });
        eq_check(c, L1, L2, true, "C05:associativity-eq:exhaustive", [&] { return d() + " (A*B)*C == A*(B*C)"; });
        ++done;
    }
    c.extra.set("enumerated", done).set("enum_total", y.sumTriple);
    c.count("enum_triple", done);
    c.nontrivial = done > 0;
}

// ------------------------------------------------------------------------------------------------ kind: canonical anticommutation relations
static void run_car(Ctx& c, long j) {
    const int M = (int)j + 1; const long dim = 1L << M;
    c.features.set("kind", "car").set("M", M);
    c.model.set("kind", "car").set("M", M);
    c.canon = "car:" + std::to_string(M);
    CMat I = CMat::Identity(dim, dim), Z = CMat::Zero(dim, dim);
    LOp one = LOp() + to_melem(1.0), zero;
    long done = 0;
    for (int i = 0; i < M; ++i) for (int k = 0; k < M; ++k) {
        Desc d = [&] { return "M=" + std::to_string(M) + " i=" + std::to_string(i) + " j=" + std::to_string(k); };
        LOp ci = PO::c((Pomerol::ParticleIndex)i), ck = PO::c((Pomerol::ParticleIndex)k), cdk = PO::c_dag((Pomerol::ParticleIndex)k), cdi = PO::c_dag((Pomerol::ParticleIndex)i);
        LOp ac1 = ci.getAntiCommutator(cdk), ac2 = cdk.getAntiCommutator(ci);
        const CMat& want = (i == k) ? I : Z;
        observe(c, ac1, M, want, 2.0, "car-c-cdag", "exhaustive", [&] { return d() + " c(i).getAntiCommutator(c_dag(j))"; });
        observe(c, ac2, M, want, 2.0, "car-c-cdag", "exhaustive", [&] { return d() + " c_dag(j).getAntiCommutator(c(i))"; });
        eq_check(c, ac1, (i == k) ? one : zero, true, "C05:car-eq:c-cdag", [&] { return d() + " {c_i,c+_j} == " + (i == k ? "Operator()+1.0" : "Operator()"); });
        eq_check(c, (i == k) ? one : zero, ac2, true, "C05:car-eq:c-cdag", [&] { return d() + " " + (i == k ? "Operator()+1.0" : "Operator()") + " == {c+_j,c_i}"; });
        if (i == k) eq_check(c, ac1, zero, false, "C05:car-eq:c-cdag", [&] { return d() + " {c_i,c+_i} == Operator()"; });
        LOp cc = ci.getAntiCommutator(ck), dd = cdi.getAntiCommutator(cdk);
        observe(c, cc, M, Z, 2.0, "car-c-c", "exhaustive", [&] { return d() + " c(i).getAntiCommutator(c(j))"; });
        observe(c, dd, M, Z, 2.0, "car-cdag-cdag", "exhaustive", [&] { return d() + " c_dag(i).getAntiCommutator(c_dag(j))"; });
        eq_check(c, cc, zero, true, "C05:car-eq:c-c", [&] { return d() + " {c_i,c_j} == Operator()"; });
        eq_check(c, dd, zero, true, "C05:car-eq:cdag-cdag", [&] { return d() + " {c+_i,c+_j} == Operator()"; });
        c.check("car-isEmpty", "C05:car-isEmpty:c-c", cc.isEmpty() && dd.isEmpty(), [&] { return d() + " {c_i,c_j} or {c+_i,c+_j} is not an empty operator: " + op_str(cc) + " " + op_str(dd); });
        // [n_i, c+_j] = delta_ij c+_j ; [n_i, c_j] = -delta_ij c_j
        LOp ni = PO::n((Pomerol::ParticleIndex)i);
        CMat mn = jw_n(M, i), mcd = jw_cdag(M, k), mcc = jw_c(M, k);
        observe(c, ni.getCommutator(cdk), M, (i == k) ? mcd : Z, 2.0, "comm-n-cdag", "exhaustive", [&] { return d() + " n(i).getCommutator(c_dag(j))"; });
        observe(c, ni.getCommutator(ck), M, (i == k) ? CMat(-mcc) : Z, 2.0, "comm-n-c", "exhaustive", [&] { return d() + " n(i).getCommutator(c(j))"; });
        commutes_check(c, ni, cdk, mn, mcd, 1.0, "n_i,c+_j", d);
        commutes_check(c, ni, PO::n((Pomerol::ParticleIndex)k), mn, jw_n(M, k), 1.0, "n_i,n_j", d);
        commutes_check(c, ci, cdk, jw_c(M, i), mcd, 1.0, "c_i,c+_j", d);
        if (i == k) self_subtract_check(c, ci, [&] { return "A=c(" + std::to_string(i) + ")"; });
        else self_subtract_check(c, ci + cdk, [&] { return "A=c(" + std::to_string(i) + ")+c_dag(" + std::to_string(k) + ")"; });
        ++done;
    }
    c.extra.set("enumerated", done).set("enum_total", (long)M * M);
    c.count("enum_car", done);
    c.nontrivial = true;
}

// ------------------------------------------------------------------------------------------------ kind: structured pairs for commutes()
// Building blocks over M modes: 1, c_i, c+_i, n_i (1+3M of them); operators: every block and every p+q, p*q, p-q of two blocks.
// All ordered pairs (X,Y) of these operators: X.commutes(Y) vs the reference commutator, and getCommutator as a matrix.
struct BlockSet {
    int M; std::vector<Poly> ref; std::vector<std::string> name;
    explicit BlockSet(int M_) : M(M_) {
        { RefTerm t; t.val = 1; ref.push_back({t}); name.push_back("1"); }
        for (int i = 0; i < M; ++i) { RefTerm t; t.val = 1; t.ops = {FOp{false, i}}; ref.push_back({t}); name.push_back("c(" + std::to_string(i) + ")"); }
        for (int i = 0; i < M; ++i) { RefTerm t; t.val = 1; t.ops = {FOp{true, i}}; ref.push_back({t}); name.push_back("c_dag(" + std::to_string(i) + ")"); }
        for (int i = 0; i < M; ++i) { RefTerm t; t.val = 1; t.ops = {FOp{true, i}, FOp{false, i}}; ref.push_back({t}); name.push_back("n(" + std::to_string(i) + ")"); }
    }
    long nb() const { return (long)ref.size(); }
    long ncombo() const { return nb() + 3 * nb() * nb(); }
    LOp lib_block(long b) const {
        if (b == 0) return LOp() + to_melem(1.0);
        long i = (b - 1) % M, kind = (b - 1) / M;
        return kind == 0 ? PO::c((Pomerol::ParticleIndex)i) : kind == 1 ? PO::c_dag((Pomerol::ParticleIndex)i) : PO::n((Pomerol::ParticleIndex)i);
    }
    void combo(long ix, LOp& lib, Poly& poly, std::string& nm) const {
        if (ix < nb()) { lib = lib_block(ix); poly = ref[(size_t)ix]; nm = name[(size_t)ix]; return; }
        long r = ix - nb(), op = r % 3, q = (r / 3) % nb(), p = r / (3 * nb());
        LOp lp = lib_block(p), lq = lib_block(q);
        if (op == 0) { lib = lp + lq; poly = poly_sum(ref[(size_t)p], ref[(size_t)q]); nm = name[(size_t)p] + "+" + name[(size_t)q]; }
        else if (op == 1) { lib = lp * lq; poly = poly_prod(ref[(size_t)p], ref[(size_t)q]); nm = name[(size_t)p] + "*" + name[(size_t)q]; }
        else { lib = lp - lq; poly = poly_sum(ref[(size_t)p], poly_scaled(ref[(size_t)q], -1.0)); nm = name[(size_t)p] + "-" + name[(size_t)q]; }
    }
};
static void run_cpair(Ctx& c, const Layout& y, long j) {
    long from = j * y.BC, to = std::min(y.sumCpair, (j + 1) * y.BC);
    c.features.set("kind", "cpair");
    c.model.set("kind", "exhaustive-commutes-pairs").set("from", from).set("to", to);
    c.canon = "cpair:" + std::to_string(y.sumCpair) + ":" + std::to_string(from) + "-" + std::to_string(to);
    std::unique_ptr<BlockSet> bs[4]; std::map<long, CMat> mats[4];
    for (int M = 2; M <= 3; ++M) bs[M].reset(new BlockSet(M));
    long done = 0;
    for (long flat = from; flat < to; ++flat) {
        int M = 2; long local = flat;
        if (local >= y.totCpair[2]) { local -= y.totCpair[2]; M = 3; }
        const BlockSet& B = *bs[M]; long nc = B.ncombo();
        long ix = local / nc, iy = local % nc;
        LOp X, Y; Poly px, py; std::string nx, ny;
        B.combo(ix, X, px, nx); B.combo(iy, Y, py, ny);
        auto mat = [&](long i, const Poly& p) -> const CMat& { std::map<long, CMat>::iterator it = mats[M].find(i); if (it != mats[M].end()) return it->second; return mats[M].insert(std::make_pair(i, jw_matrix(M, p))).first->second; };
        const CMat& mx = mat(ix, px); const CMat& my = mat(iy, py);
        Desc d = [&] { return "M=" + std::to_string(M) + " X=" + nx + " Y=" + ny; };
        commutes_check(c, X, Y, mx, my, 4.0, "structured pair", d);
        if (iy % 7 == ix % 7) observe(c, X.getCommutator(Y), M, mx * my - my * mx, 8.0, "commutator", "exhaustive", [&] { return d() + " X.getCommutator(Y)"; });
        ++done;
    }
    c.extra.set("enumerated", done).set("enum_total", y.sumCpair);
    c.count("enum_cpair", done);
    c.nontrivial = done > 0;
}

// ------------------------------------------------------------------------------------------------ random monomials / polynomials
// cls 0: uniform letters, length 0..8; 1: walk that does not vanish on some state, length 1..8; 2: number conserving walk
// (k = 0..4 pairs); 3: constant
static std::vector<FOp> gen_mono(Rng& r, int M, int cls) {
    std::vector<FOp> ops;
    if (cls == 0) {
        int len = (int)r.range(0, 8);
        for (int k = 0; k < len; ++k) { bool dag = r.coin(); ops.push_back(FOp{dag, (int)r.range(0, M - 1)}); }
    } else if (cls == 1) {
        int len = (int)r.range(1, 8);
        uint64_t s = (uint64_t)r.range(0, (1L << M) - 1);
        std::vector<FOp> rev;   // rightmost factor first
        for (int k = 0; k < len; ++k) { int i = (int)r.range(0, M - 1); bool occ = (s >> i) & 1; rev.push_back(FOp{!occ, i}); s ^= (1ULL << i); }
        ops.assign(rev.rbegin(), rev.rend());
    } else if (cls == 2) {
        int pairs = (int)r.range(0, 4);
        uint64_t s = (uint64_t)r.range(0, (1L << M) - 1);
        std::vector<FOp> rev;
        const uint64_t full = (1ULL << M) - 1;
        for (int k = 0; k < pairs; ++k) {
            bool annih_first = r.coin();
            if (s == 0) annih_first = false; else if (s == full) annih_first = true;
            for (int step = 0; step < 2; ++step) {
                bool want_occ = (step == 0) ? annih_first : !annih_first;   // c on an occupied mode / c+ on an empty one
                std::vector<int> cand;                                      // never empty: see the choice of annih_first
                for (int i = 0; i < M; ++i) if ((((s >> i) & 1) != 0) == want_occ) cand.push_back(i);
                size_t pickpos = (size_t)r.range(0, M - 1);
                int i = cand.empty() ? 0 : cand[pickpos % cand.size()];
                bool occ = (s >> i) & 1;
                rev.push_back(FOp{!occ, i}); s ^= (1ULL << i);
            }
        }
        ops.assign(rev.rbegin(), rev.rend());
    }
    return ops;
}
static Poly gen_poly(Rng& r, int M, int nmon, bool conserving) {
    Poly p;
    for (int k = 0; k < nmon; ++k) {
        double u = r.uni(); int cls;
        if (conserving) cls = (u < 0.85) ? 2 : 3;
        else cls = (u < 0.30) ? 0 : (u < 0.75) ? 1 : (u < 0.90) ? 2 : 3;
        RefTerm t; t.ops = gen_mono(r, M, cls); t.val = pick_coef(r);
        p.push_back(t);
    }
    return p;
}
// normal-ordered non-vanishing monomial with distinct creators / annihilators (for the equality cases): length in [lmin, lmax]
static std::vector<FOp> gen_canonical(Rng& r, int M, int lmin, int lmax) {
    lmax = std::min(lmax, 2 * M); lmin = std::min(lmin, lmax);
    int len = (int)r.range(lmin, lmax);
    int ncmin = std::max(0, len - M), ncmax = std::min(len, M);
    int nc = (int)r.range(ncmin, ncmax), na = len - nc;
    std::vector<int> modes((size_t)M); for (int i = 0; i < M; ++i) modes[(size_t)i] = i;
    auto subset = [&](int n) { std::vector<int> m = modes; std::vector<int> out; for (int k = 0; k < n; ++k) { size_t p = (size_t)r.range(0, (long)m.size() - 1); out.push_back(m[p]); m.erase(m.begin() + (long)p); } std::sort(out.begin(), out.end()); return out; };
    std::vector<FOp> ops;
    for (int i : subset(nc)) ops.push_back(FOp{true, i});
    for (int i : subset(na)) ops.push_back(FOp{false, i});
    return ops;
}
static bool same_mono(const std::vector<FOp>& a, const std::vector<FOp>& b) {
    if (a.size() != b.size()) return false;
    for (size_t k = 0; k < a.size(); ++k) if (a[k].dag != b[k].dag || a[k].idx != b[k].idx) return false;
    return true;
}

// ------------------------------------------------------------------------------------------------ kind: random polynomials
static void run_random(Ctx& c, long j) {
    Rng& r = c.rng;
    const std::string K = "random";
    int M;
    if (c.thorough()) { static const int w[] = {1, 2, 2, 3, 3, 3, 4, 4, 4, 5, 5, 5, 6, 6, 6, 7, 7, 8}; M = w[r.range(0, 17)]; }
    else { static const int w[] = {1, 2, 2, 3, 3, 3, 4, 4, 4, 5, 5, 6}; M = w[r.range(0, 11)]; }
    const long dim = 1L << M;
    bool conserving = r.coin(0.4);
    int nA = (int)r.range(1, 6), nB = (int)r.range(1, 6);
    Poly pA = gen_poly(r, M, nA, conserving), pB = gen_poly(r, M, nB, conserving && r.coin(0.5));
    cd alpha = r.coin(0.08) ? cd(0, 0) : pick_coef(r);
    c.features.set("kind", "random").set("M", M).set("nA", nA).set("nB", nB).set("conserving", conserving).set("alpha_zero", alpha == cd(0, 0));
    c.model.set("kind", "random").set("M", M).set("A", poly_json(pA)).set("B", poly_json(pB)).set("alpha", alpha);
    (void)j;
    c.canon = "random:" + std::to_string(hash_str(c.model.str()));
    CMat mA = jw_matrix(M, pA), mB = jw_matrix(M, pB), I = CMat::Identity(dim, dim);
    const double sA = sumabs(pA), sB = sumabs(pB), aa = std::max(1.0, std::abs(alpha));
    Desc d = [&] { return "M=" + std::to_string(M) + " A=" + poly_str(pA) + " B=" + poly_str(pB) + " alpha=" + cstr(alpha); };
    Pomerol::MelemType al = to_melem(alpha);

    LOp A = lib_poly(pA, r), B = lib_poly(pB, r);
    long nsA = observe(c, A, M, mA, sA, "build", K, [&] { return d() + " A built from its monomials"; }).nmono;
    long nsB = observe(c, B, M, mB, sB, "build", K, [&] { return d() + " B built from its monomials"; }).nmono;
    c.features.set("stored_A", nsA).set("stored_B", nsB);
    bool multi = nsA >= 2 && nsB >= 2;
    int form = (int)r.range(0, 255);   // bit b: use the in-place form of operation b

    // products
    { LOp P; if (form & 1) { P = A; P *= B; } else P = A * B;
      long n = observe(c, P, M, mA * mB, sA * sB, "product", K, [&] { return d() + ((form & 1) ? " X=A; X*=B" : " A*B"); }).nmono;
      c.features.set("stored_AB", n); if (multi) c.count("multi_products"); }
    { LOp P = B * A; observe(c, P, M, mB * mA, sA * sB, "product", K, [&] { return d() + " B*A"; }); if (multi) c.count("multi_products"); }
    // sum, difference
    { LOp S; if (form & 2) { S = A; S += B; } else S = A + B; observe(c, S, M, mA + mB, sA + sB, "sum", K, [&] { return d() + ((form & 2) ? " X=A; X+=B" : " A+B"); }); }
    { LOp D; if (form & 4) { D = A; D -= B; } else D = A - B; observe(c, D, M, mA - mB, sA + sB, "difference", K, [&] { return d() + ((form & 4) ? " X=A; X-=B" : " A-B"); }); }
    // scalars
    { LOp X = al * A; observe(c, X, M, alpha * mA, aa * sA, "scalar-left", K, [&] { return d() + " alpha*A"; }); }
    { LOp X; if (form & 8) { X = A; X *= al; } else X = A * al; observe(c, X, M, alpha * mA, aa * sA, "scalar-right", K, [&] { return d() + ((form & 8) ? " X=A; X*=alpha" : " A*alpha"); }); }
    { LOp X; if (form & 16) { X = A; X += al; } else X = A + al; observe(c, X, M, mA + alpha * I, aa + sA, "add-constant", K, [&] { return d() + ((form & 16) ? " X=A; X+=alpha" : " A+alpha"); }); }
    { LOp X = al + A; observe(c, X, M, mA + alpha * I, aa + sA, "add-constant", K, [&] { return d() + " alpha+A"; }); }
    { LOp X; if (form & 32) { X = A; X -= al; } else X = A - al; observe(c, X, M, mA - alpha * I, aa + sA, "subtract-constant", K, [&] { return d() + ((form & 32) ? " X=A; X-=alpha" : " A-alpha"); }); }
    { LOp X = al - A; observe(c, X, M, alpha * I - mA, aa + sA, "constant-minus", K, [&] { return d() + " alpha-A"; }); }
    { LOp X = -A; observe(c, X, M, -mA, sA, "negate", K, [&] { return d() + " -A"; }); }
    // commutator, anticommutator
    { LOp X = A.getCommutator(B); observe(c, X, M, mA * mB - mB * mA, 2 * sA * sB, "commutator", K, [&] { return d() + " A.getCommutator(B)"; }); if (multi) c.count("multi_products"); }
    { LOp X = A.getAntiCommutator(B); observe(c, X, M, mA * mB + mB * mA, 2 * sA * sB, "anticommutator", K, [&] { return d() + " A.getAntiCommutator(B)"; }); }
    // deliberate cancellations
    { LOp Z1 = A - A; observe(c, Z1, M, CMat::Zero(dim, dim), sA, "cancel-self", K, [&] { return d() + " A-A"; });
      c.check("cancel-isEmpty", "C05:cancel-isEmpty:A-minus-A", Z1.isEmpty(), [&] { return d() + " A-A keeps monomials: " + op_str(Z1); }); }
    { LOp Z2 = A + to_melem(-1.0) * A; observe(c, Z2, M, CMat::Zero(dim, dim), sA, "cancel-self", K, [&] { return d() + " A+(-1)*A"; });
      c.check("cancel-isEmpty", "C05:cancel-isEmpty:A-plus-minus-A", Z2.isEmpty(), [&] { return d() + " A+(-1)*A keeps monomials: " + op_str(Z2); }); }
    { LOp Z3 = (A + B) - B; observe(c, Z3, M, mA, sA + 2 * sB, "sum-minus-summand", K, [&] { return d() + " (A+B)-B"; });
      eq_check(c, Z3, A, true, "C05:equality:sum-minus-summand", [&] { return d() + " (A+B)-B == A"; }, sA + 2 * sB); }
    { LOp X = A; X += X; observe(c, X, M, 2.0 * mA, 2 * sA, "self-add", K, [&] { return d() + " X=A; X+=X"; }); }
    { LOp X = A; X *= X; observe(c, X, M, mA * mA, sA * sA, "self-product", K, [&] { return d() + " X=A; X*=X"; }); if (nsA >= 2) c.count("multi_products"); }
    self_subtract_check(c, A, d);
    // Pauli: repeated factor, square of an odd monomial
    {
        int i = (int)r.range(0, M - 1);
        LOp ci = PO::c((Pomerol::ParticleIndex)i), cdi = PO::c_dag((Pomerol::ParticleIndex)i);
        CMat mc = jw_c(M, i), mcd = jw_cdag(M, i);
        observe(c, A * ci * ci, M, CMat::Zero(dim, dim), sA, "pauli", K, [&] { return d() + " A*c(i)*c(i), i=" + std::to_string(i); });
        observe(c, cdi * (cdi * A), M, CMat::Zero(dim, dim), sA, "pauli", K, [&] { return d() + " c_dag(i)*(c_dag(i)*A), i=" + std::to_string(i); });
        observe(c, (A * ci) * (ci * B), M, CMat::Zero(dim, dim), sA * sB, "pauli", K, [&] { return d() + " (A*c(i))*(c(i)*B), i=" + std::to_string(i); });
        observe(c, ci * A * cdi, M, mc * mA * mcd, sA, "sandwich", K, [&] { return d() + " c(i)*A*c_dag(i), i=" + std::to_string(i); });
        const RefTerm& t = pA[(size_t)r.range(0, (long)pA.size() - 1)];
        LOp T = lib_term(t, (int)r.range(0, 7), 0);
        CMat mt = jw_matrix(M, {t});
        observe(c, T * T, M, mt * mt, std::max(1.0, std::norm(t.val)), "monomial-square", K, [&] { return d() + " T*T for T=" + cstr(t.val) + "*[" + mono_str(t.ops) + "]"; });
    }
    // commutes
    {
        commutes_check(c, A, B, mA, mB, sA * sB, "A,B", d);
        commutes_check(c, B, A, mB, mA, sA * sB, "B,A", d);
        commutes_check(c, A, A, mA, mA, sA * sA, "A,A", d);
        { LOp P = A * A + al; commutes_check(c, A, P, mA, CMat(mA * mA + alpha * I), sA * (sA * sA + aa), "A,A*A+alpha", d); }
        std::vector<bool> used((size_t)M, false);
        for (auto& t : pA) for (auto& f : t.ops) used[(size_t)f.idx] = true;
        int iu = -1, in = -1;
        for (int i = 0; i < M; ++i) { if (used[(size_t)i] && iu < 0) iu = i; if (!used[(size_t)i] && in < 0) in = i; }
        if (iu >= 0) commutes_check(c, A, PO::n((Pomerol::ParticleIndex)iu), mA, jw_n(M, iu), sA, "A,n_i (mode used by A)", d);
        if (in >= 0) commutes_check(c, A, PO::n((Pomerol::ParticleIndex)in), mA, jw_n(M, in), sA, "A,n_i (mode not used by A)", d);
        if (in >= 0) commutes_check(c, A, PO::c((Pomerol::ParticleIndex)in), mA, jw_c(M, in), sA, "A,c_i (mode not used by A)", d);
        PO::N Nobj((Pomerol::ParticleIndex)M);
        CMat mN = CMat::Zero(dim, dim); for (int i = 0; i < M; ++i) mN += jw_n(M, i);
        commutes_check(c, A, Nobj, mA, mN, sA * M, conserving ? "A,N (A number conserving)" : "A,N", d);
        commutes_check(c, Nobj, B, mN, mB, sB * M, "N,B", d);
        LOp AB = A * B;
        commutes_check(c, AB, Nobj, mA * mB, mN, sA * sB * M, "A*B,N", d);
    }
    // matrix element between linear combinations of Fock states
    {
        std::vector<FS> states; std::vector<long> label;
        for (long s = 0; s < dim; ++s) label.push_back(s);
        for (long s = dim - 1; s > 0; --s) std::swap(label[(size_t)s], label[(size_t)r.range(0, s)]);
        for (long s = 0; s < dim; ++s) states.push_back(FS((size_t)M, (unsigned long)label[(size_t)s]));
        Pomerol::VectorType bra(dim), ket(dim); CVec rb(dim), rk(dim); double nb = 0, nk = 0;
        for (long s = 0; s < dim; ++s) {
            cd b = r.coin(0.4) ? cd(0, 0) : pick_coef(r), k = r.coin(0.4) ? cd(0, 0) : pick_coef(r);
            bra(s) = to_melem(b); ket(s) = to_melem(k); rb(s) = b; rk(s) = k; nb += std::abs(b); nk += std::abs(k);
        }
        auto expect = [&](const CMat& m) { cd e = 0; for (long a = 0; a < dim; ++a) for (long b = 0; b < dim; ++b) e += std::conj(rb(a)) * m(label[(size_t)a], label[(size_t)b]) * rk(b); return e; };
        const LOp& Ar = A;
        c.cmp("melem-vectors", "C05:melem-vectors:random", to_cd(Ar.getMatrixElement(bra, ket, states)), expect(mA), 1e-12 * sA * std::max(1.0, nb) * std::max(1.0, nk),
              [&] { return d() + " A.getMatrixElement(VectorType bra, VectorType ket, states)"; });
    }
    c.nontrivial = c.counters["multi_products"] >= 1;
}

// ------------------------------------------------------------------------------------------------ kind: equality
static void run_equality(Ctx& c, long j) {
    Rng& r = c.rng;
    const int M = (int)r.range(2, 5); const long dim = 1L << M;
    c.features.set("kind", "equality").set("M", M);
    // distinct canonical monomials (possibly including the constant)
    int nmon = (int)r.range(2, 5);
    Poly pA;
    for (int guard = 0; (int)pA.size() < nmon && guard < 100; ++guard) {
        RefTerm t; t.ops = gen_canonical(r, M, 0, 5); t.val = pick_coef(r);
        bool dup = false; for (auto& u : pA) dup = dup || same_mono(u.ops, t.ops);
        if (!dup) pA.push_back(t);
    }
    Poly pB;
    int nB = (int)r.range(2, 4);
    for (int guard = 0; (int)pB.size() < nB && guard < 100; ++guard) {
        RefTerm t; t.ops = gen_canonical(r, M, 1, 4); t.val = pick_coef(r);
        bool dup = false; for (auto& u : pB) dup = dup || same_mono(u.ops, t.ops);
        if (!dup) pB.push_back(t);
    }
    c.model.set("kind", "equality").set("M", M).set("A", poly_json(pA)).set("B", poly_json(pB));
    (void)j;
    c.canon = "equality:" + std::to_string(hash_str(c.model.str()));
    CMat mA = jw_matrix(M, pA), mB = jw_matrix(M, pB);
    Desc d = [&] { return "M=" + std::to_string(M) + " A=" + poly_str(pA) + " B=" + poly_str(pB); };
    auto both_d = [&](const LOp& X, const LOp& Y, const CMat& mx, const CMat& my, const std::string& cls, const std::string& what, const Desc& dd, double noise_scale) {
        bool e = mats_equal(mx, my);
        eq_check(c, X, Y, e, "C05:equality:" + cls, [&] { return dd() + " " + what + " (lhs,rhs as written)"; }, noise_scale);
        eq_check(c, Y, X, e, "C05:equality:" + cls, [&] { return dd() + " " + what + " (lhs,rhs swapped)"; }, noise_scale);
    };
    const double nsAB = sumabs(pA) * sumabs(pB);   // bound on the |contributions| to any coefficient of A*B, A+B, ...
    const double nsSum = std::max(sumabs(pA), sumabs(pB));   // operands compared without multiplications: no accumulation beyond one coefficient
    auto both = [&](const LOp& X, const LOp& Y, const CMat& mx, const CMat& my, const std::string& cls, const std::string& what, double ns = -1) { both_d(X, Y, mx, my, cls, what, d, ns < 0 ? nsSum : ns); };
    Desc dlit = [&] { return "M=" + std::to_string(M) + " literal instance:"; };
    // 0. the minimal literal instances of every pair class (first, so that they become the recorded witnesses)
    {
        CMat mz = CMat::Zero(dim, dim), mi = CMat::Identity(dim, dim);
        LOp one = LOp() + to_melem(1.0), n0 = PO::n(0), cd0 = PO::c_dag(0), cd0c1 = PO::c_dag(0) * PO::c(1), c0 = PO::c(0);
        both_d(one, n0, mi, jw_n(M, 0), "constant-vs-monomial", "Operator()+1.0 vs n(0)", dlit, 1.0);
        both_d(cd0, cd0c1, jw_cdag(M, 0), jw_quad(M, 0, 1), "prefix-monomial", "c_dag(0) vs c_dag(0)*c(1)", dlit, 1.0);
        both_d(LOp(), LOp() + to_melem(0.0), mz, mz, "explicit-zero-term", "Operator() vs Operator()+0.0", dlit, 1.0);
        both_d(c0, c0 + to_melem(0.0), jw_c(M, 0), jw_c(M, 0), "explicit-zero-term", "c(0) vs c(0)+0.0", dlit, 1.0);
        both_d(one, one + to_melem(1e-17), mi, mi, "tiny-added-constant", "Operator()+1.0 vs Operator()+1.0+1e-17", dlit, 1.0);
        both_d(cd0 + c0, c0 + cd0, jw_c(M, 0) + jw_cdag(M, 0), jw_c(M, 0) + jw_cdag(M, 0), "same-operator-different-build-order", "c_dag(0)+c(0) vs c(0)+c_dag(0)", dlit, 1.0);
        both_d(c0, c0 * to_melem(1.5), jw_c(M, 0), 1.5 * jw_c(M, 0), "one-coefficient-differs", "c(0) vs c(0)*1.5", dlit, 1.0);
        both_d(c0 + PO::c_dag(1), PO::n(0) + PO::n(1), jw_c(M, 0) + jw_cdag(M, 1), jw_n(M, 0) + jw_n(M, 1), "same-count-different-lengths", "c(0)+c_dag(1) vs n(0)+n(1)", dlit, 1.0);
        // commutes() with an operand that carries an explicit zero term
        LOp X = PO::c(0) * PO::c(1), Y = PO::n(0) - PO::n(1);
        CMat mx = jw_c(M, 0) * jw_c(M, 1), my = jw_n(M, 0) - jw_n(M, 1);
        commutes_check(c, X, Y, mx, my, 2.0, "c(0)*c(1), n(0)-n(1)", dlit);
        commutes_check(c, X, Y + to_melem(0.0), mx, my, 2.0, "c(0)*c(1), n(0)-n(1)+0.0", dlit);
    }
    LOp A = lib_poly(pA, r);
    // 1. identical operators built in different orders / through different routes
    {
        Poly sh = pA; for (long s = (long)sh.size() - 1; s > 0; --s) std::swap(sh[(size_t)s], sh[(size_t)r.range(0, s)]);
        LOp A2 = lib_poly(sh, r);
        both(A, A2, mA, mA, "same-operator-different-build-order", "A vs A built from shuffled terms");
        LOp B = lib_poly(pB, r);
        LOp P1 = A * B, P2 = lib_poly(poly_prod(pA, pB), r);
        if (n_stored(A) >= 2 && n_stored(B) >= 2) c.count("multi_products");
        CMat mP = mA * mB;
        observe(c, P1, M, mP, sumabs(pA) * sumabs(pB), "product", "equality", [&] { return d() + " A*B"; });
        both(P1, P2, mP, mP, "product-vs-termwise-product", "A*B vs sum_ij a_i b_j (m_i m_j) built term by term", nsAB);
        both(A * B, B * A, mP, mB * mA, "AB-vs-BA", "A*B vs B*A", nsAB);
        both(A + B, B + A, mA + mB, mA + mB, "same-operator-different-build-order", "A+B vs B+A");
    }
    // 2. one coefficient differs by >= 0.1
    {
        Poly q = pA; size_t k = (size_t)r.range(0, (long)q.size() - 1);
        static const double dl[] = {0.1, -0.1, 0.5, -0.5, 1.0, -0.125};
        q[k].val += dl[r.range(0, 5)];
        LOp A2 = lib_poly(q, r);
        both(A, A2, mA, jw_matrix(M, q), "one-coefficient-differs", "A vs A with the coefficient of [" + mono_str(q[k].ops) + "] changed to " + cstr(q[k].val));
    }
    // 3. strict-prefix monomial; 4. constant vs monomial
    {
        std::vector<FOp> lng = gen_canonical(r, M, 2, 6);
        int cut = (int)r.range(1, (long)lng.size() - 1);
        std::vector<FOp> sht(lng.begin(), lng.begin() + cut);
        cd a = pick_coef(r);
        RefTerm tl; tl.ops = lng; tl.val = a; RefTerm ts; ts.ops = sht; ts.val = a; RefTerm tc; tc.val = a;
        LOp Lg = lib_term(tl, 0, 0), Sh = lib_term(ts, 0, 0), Cn = lib_const(a);
        CMat ml = jw_matrix(M, {tl}), ms = jw_matrix(M, {ts}), mc = jw_matrix(M, {tc});
        both(Sh, Lg, ms, ml, "prefix-monomial", cstr(a) + "*[" + mono_str(sht) + "] vs " + cstr(a) + "*[" + mono_str(lng) + "]");
        both(Cn, Lg, mc, ml, "constant-vs-monomial", "Operator()+" + cstr(a) + " vs " + cstr(a) + "*[" + mono_str(lng) + "]");
        both(Cn, Sh, mc, ms, "constant-vs-monomial", "Operator()+" + cstr(a) + " vs " + cstr(a) + "*[" + mono_str(sht) + "]");
        // with a common longer monomial in both operands (same count, positions aligned)
        std::vector<FOp> xl = gen_canonical(r, M, (int)lng.size() + 1, 2 * M);
        if (xl.size() > lng.size()) {
            RefTerm tx; tx.ops = xl; tx.val = pick_coef(r);
            LOp X = lib_term(tx, 0, 0); CMat mx = jw_matrix(M, {tx});
            both(Sh + X, Lg + X, ms + mx, ml + mx, "prefix-monomial", cstr(a) + "*[" + mono_str(sht) + "]+X vs " + cstr(a) + "*[" + mono_str(lng) + "]+X, X=" + cstr(tx.val) + "*[" + mono_str(xl) + "]");
            both(Cn + X, Sh + X, mc + mx, ms + mx, "constant-vs-monomial", "Operator()+" + cstr(a) + "+X vs " + cstr(a) + "*[" + mono_str(sht) + "]+X, X=" + cstr(tx.val) + "*[" + mono_str(xl) + "]");
        }
    }
    // 5. same number of monomials, different lengths
    {
        Poly q;
        for (int guard = 0; q.size() < pA.size() && guard < 100; ++guard) {
            RefTerm t; t.ops = gen_canonical(r, M, 0, 6); t.val = pA[q.size()].val;
            bool dup = false; for (auto& u : q) dup = dup || same_mono(u.ops, t.ops);
            if (!dup) q.push_back(t);
        }
        if (q.size() == pA.size()) {
            LOp Q = lib_poly(q, r);
            bool difflen = false; { std::vector<size_t> la, lq; for (auto& t : pA) la.push_back(t.ops.size()); for (auto& t : q) lq.push_back(t.ops.size()); std::sort(la.begin(), la.end()); std::sort(lq.begin(), lq.end()); difflen = la != lq; }
            both(A, Q, mA, jw_matrix(M, q), difflen ? "same-count-different-lengths" : "same-count-same-lengths", "A vs Q=" + poly_str(q));
        }
    }
    // 6. empty operators
    {
        LOp E1, E2, Z = A - A, Z0 = A * to_melem(0.0);
        CMat mz = CMat::Zero(dim, dim);
        both(E1, E2, mz, mz, "empty-vs-empty", "Operator() vs Operator()");
        both(Z, E1, mz, mz, "empty-vs-empty", "A-A vs Operator()");
        both(Z0, E1, mz, mz, "empty-vs-empty", "A*0.0 vs Operator()");
        both(A, E1, mA, mz, "different-count", "A vs Operator()");
        RefTerm t; t.ops = gen_canonical(r, M, 1, 4); t.val = pick_coef(r);
        bool dup = false; for (auto& u : pA) dup = dup || same_mono(u.ops, t.ops);
        if (!dup) { LOp A3 = A + lib_term(t, 0, 0); both(A, A3, mA, mA + jw_matrix(M, {t}), "different-count", "A vs A+" + cstr(t.val) + "*[" + mono_str(t.ops) + "]"); }
    }
    // 7./8. negligible additions
    {
        bool has_const = false; for (auto& t : pA) has_const = has_const || t.ops.empty();
        Poly pc = pA; if (!has_const) { RefTerm t; t.val = 1.0; pc.push_back(t); }
        LOp Ac = has_const ? A : A + to_melem(1.0);
        CMat mc = jw_matrix(M, pc);
        // the constant term absorbs 1e-17 exactly: identical matrices
        both(Ac, Ac + to_melem(1e-17), mc, mc, "tiny-added-constant", "A' vs A'+1e-17 where A' has a constant term of order 1");
        // without a constant term: exact matrices differ by 1e-17, far inside every tolerance of the library; recorded, not judged
        Poly pn; for (auto& t : pA) if (!t.ops.empty()) pn.push_back(t);
        LOp An = lib_poly_plain(pn);
        bool res = false, over = false;
        LOp At = An + to_melem(1e-17);
        if (lib_eq(c, An, At, res, over, "C05:equality:tiny-added-constant", d)) { c.count(res ? "tiny_no_const_eq_true" : "tiny_no_const_eq_false"); c.extra.set("A_eq_A_plus_1e-17_without_constant_term", res); }
        // an explicit zero: exactly the same matrix
        CMat mn = jw_matrix(M, pn);
        both(An, An + to_melem(0.0), mn, mn, "explicit-zero-term", "A vs A+0.0 (A without constant term)");
    }
    c.nontrivial = c.counters["multi_products"] >= 1;
}

// ------------------------------------------------------------------------------------------------ kind: N / Sz shortcuts
template <class T>
static void check_shortcut(Ctx& c, const T& op, int M, const Poly& generic, const std::string& name, const Desc& d) {
    const long dim = 1L << M;
    CMat ref = jw_matrix(M, generic);
    const double scale = sumabs(generic), tol = 1e-12 * scale;
    const LOp& base = op; const LOp* bp = &op;
    const std::string kp = "C05:" + name + "-shortcut:";
    double w_diag1 = 0, w_diag = 0, w_off = 0, w_vdiag = 0, w_voff = 0, w_act = 0, w_vact = 0;
    long s_diag1 = 0, s_diag = 0, s_off = 0, b_off = 0, s_vdiag = 0, s_voff = 0, b_voff = 0, s_act = 0, s_vact = 0;
    bool sizes_ok = true;
    auto upd = [](double dd, double& w, long& ws, long s) { if (!(dd <= w)) { w = std::isfinite(dd) ? dd : 1e300; ws = s; } };
    for (long s = 0; s < dim; ++s) {
        FS ket((size_t)M, (unsigned long)s);
        upd(std::abs(to_cd(op.getMatrixElement(ket)) - ref(s, s)), w_diag1, s_diag1, s);
        std::map<FS, Pomerol::MelemType> m1 = op.actRight(ket), m2 = base.actRight(ket), m3 = bp->actRight(ket);
        int which = 0;
        for (const std::map<FS, Pomerol::MelemType>* mp : {&m1, &m2, &m3}) {
            CVec col = CVec::Zero(dim);
            for (auto& kv : *mp) { if ((long)kv.first.size() != M) { sizes_ok = false; continue; } col((long)kv.first.to_ulong()) += to_cd(kv.second); }
            double dd = maxabs(col - ref.col(s));
            if (which == 0) upd(dd, w_act, s_act, s); else upd(dd, w_vact, s_vact, s);
            ++which;
        }
        for (long b = 0; b < dim; ++b) {
            FS bra((size_t)M, (unsigned long)b);
            double d1 = std::abs(to_cd(op.getMatrixElement(bra, ket)) - ref(b, s));
            double d2 = std::abs(to_cd(base.getMatrixElement(bra, ket)) - ref(b, s));
            if (b == s) { upd(d1, w_diag, s_diag, s); upd(d2, w_vdiag, s_vdiag, s); }
            else { if (!(d1 <= w_off)) b_off = b; upd(d1, w_off, s_off, s); if (!(d2 <= w_voff)) b_voff = b; upd(d2, w_voff, s_voff, s); }
        }
    }
    c.check(name + "-shortcut-state-size", kp + "actRight-state-size", sizes_ok, [&] { return d() + ": actRight returned a state of the wrong size"; });
    c.cmp(name + "-shortcut-diag1", kp + "diag-single-arg", w_diag1, 0.0, tol, [&] { return d() + ": getMatrixElement(ket=" + std::to_string(s_diag1) + ") vs <ket|generic polynomial|ket>"; });
    c.cmp(name + "-shortcut-diag", kp + "diag", w_diag, 0.0, tol, [&] { return d() + ": getMatrixElement(ket,ket), ket=" + std::to_string(s_diag); });
    c.cmp(name + "-shortcut-offdiag", kp + "offdiag", w_off, 0.0, tol, [&] { return d() + ": getMatrixElement(bra=" + std::to_string(b_off) + ",ket=" + std::to_string(s_off) + ")"; });
    c.cmp(name + "-shortcut-actRight", kp + "actRight", w_act, 0.0, tol, [&] { return d() + ": actRight(ket=" + std::to_string(s_act) + ")"; });
    c.cmp(name + "-shortcut-virtual", kp + "virtual-diag", w_vdiag, 0.0, tol, [&] { return d() + ": getMatrixElement(ket,ket) through const Operator&, ket=" + std::to_string(s_vdiag); });
    c.cmp(name + "-shortcut-virtual", kp + "virtual-offdiag", w_voff, 0.0, tol, [&] { return d() + ": getMatrixElement(bra=" + std::to_string(b_voff) + ",ket=" + std::to_string(s_voff) + ") through const Operator&"; });
    c.cmp(name + "-shortcut-virtual", kp + "virtual-actRight", w_vact, 0.0, tol, [&] { return d() + ": actRight(ket=" + std::to_string(s_vact) + ") through const Operator& / const Operator*"; });
    // stored monomials of the derived object
    bool normal = true, in_range = true;
    Poly st = stored_poly(op, M, normal, in_range);
    c.check(name + "-shortcut-stored", kp + "stored-monomials-shape", normal && in_range, [&] { return d() + ": stored monomials not normal ordered / index out of range: " + op_str(op); });
    if (in_range) { CMat D = jw_matrix(M, st) - ref; c.cmp(name + "-shortcut-stored", kp + "stored-monomials", maxabs(D), 0.0, tol, [&] { return d() + ": stored monomials vs generic polynomial, " + where_max(D) + "; stored=" + op_str(op); }); }
    // the generic evaluation of the same stored monomials (sliced copy = plain Operator)
    LOp sliced(op);
    observe(c, sliced, M, ref, scale, name + "-generic", "shortcut", [&] { return d() + " copy sliced to Operator"; });
}

static void run_shortcut(Ctx& c, long j) {
    Rng& r = c.rng;
    const int Mmax = c.thorough() ? 8 : 6;
    const int M = (j < Mmax) ? (int)j + 1 : (int)r.range(1, Mmax);   // every M occurs at least once
    const long dim = 1L << M;
    c.features.set("kind", "shortcut").set("M", M);
    c.model.set("kind", "shortcut").set("M", M);
    // N
    PO::N Nobj((Pomerol::ParticleIndex)M);
    Poly pN; for (int i = 0; i < M; ++i) { RefTerm t; t.ops = {FOp{true, i}, FOp{false, i}}; t.val = 1; pN.push_back(t); }
    check_shortcut(c, Nobj, M, pN, "N", [&] { return "N(" + std::to_string(M) + ")"; });
    CMat mN = jw_matrix(M, pN);
    {   // observation only: N(M) on a Fock state with more than M modes (outside the quantifier of the property)
        FS wide((size_t)M + 2, (unsigned long)((1UL << (M + 2)) - 1));
        cd v = to_cd(Nobj.getMatrixElement(wide));
        c.extra.set("N_on_wider_state_counts_extra_modes", std::abs(v - cd((double)M, 0)) > 0.5);
    }
    // Sz(Nmodes, up)
    std::vector<int> perm((size_t)M); for (int i = 0; i < M; ++i) perm[(size_t)i] = i;
    for (long s = M - 1; s > 0; --s) std::swap(perm[(size_t)s], perm[(size_t)r.range(0, s)]);
    int nup = (M % 2 == 0 && r.coin(0.75)) ? M / 2 : (int)r.range(0, M);
    std::vector<Pomerol::ParticleIndex> up; std::vector<int> upi;
    for (int k = 0; k < nup; ++k) { up.push_back((Pomerol::ParticleIndex)perm[(size_t)k]); upi.push_back(perm[(size_t)k]); }
    if (r.coin()) { std::sort(up.begin(), up.end()); std::sort(upi.begin(), upi.end()); }
    J jup = J::arr(); for (int i : upi) jup.push(i);
    c.model.set("Sz1_up", jup);
    bool valid1 = (2 * nup == M);
    c.features.set("sz1_valid", valid1);
    std::unique_ptr<PO::Sz> S1; bool threw = false; std::string exc;
    try { S1.reset(new PO::Sz((Pomerol::ParticleIndex)M, up)); }
    catch (const LOp::exWrongLabel& e) { threw = true; exc = "exWrongLabel"; }
    catch (const std::exception& e) { threw = true; exc = e.what(); }
    Desc d1 = [&] { return "Sz(Nmodes=" + std::to_string(M) + ", up=" + jup.str() + ")"; };
    CMat mSz = CMat::Zero(dim, dim); bool have_sz = false;
    if (valid1) {
        c.check("Sz-shortcut-ctor", "C05:Sz-shortcut:ctor-unexpected-throw", !threw, [&] { return d1() + " threw " + exc; });
        if (S1) {
            std::vector<int> down; for (int i = 0; i < M; ++i) if (std::find(upi.begin(), upi.end(), i) == upi.end()) down.push_back(i);
            Poly pS;
            for (size_t k = 0; k < upi.size(); ++k) { RefTerm t; t.ops = {FOp{true, upi[k]}, FOp{false, upi[k]}}; t.val = 0.5; pS.push_back(t); t.ops = {FOp{true, down[k]}, FOp{false, down[k]}}; t.val = -0.5; pS.push_back(t); }
            check_shortcut(c, *S1, M, pS, "Sz", d1);
            mSz = jw_matrix(M, pS); have_sz = true;
        }
    } else {
        c.count("sz_ctor_must_throw");
        c.check("Sz-shortcut-ctor", "C05:Sz-shortcut:ctor-no-throw", threw, [&] { return d1() + " did not throw although #up != #down"; });
    }
    // Sz(up, down)
    {
        int kmax = M / 2;
        int ku = (int)r.range(0, kmax), kd = r.coin(0.7) ? ku : (int)r.range(0, M - ku);
        for (long s = M - 1; s > 0; --s) std::swap(perm[(size_t)s], perm[(size_t)r.range(0, s)]);
        std::vector<Pomerol::ParticleIndex> u2, d2; std::vector<int> u2i, d2i;
        for (int k = 0; k < ku; ++k) { u2.push_back((Pomerol::ParticleIndex)perm[(size_t)k]); u2i.push_back(perm[(size_t)k]); }
        for (int k = 0; k < kd; ++k) { d2.push_back((Pomerol::ParticleIndex)perm[(size_t)(ku + k)]); d2i.push_back(perm[(size_t)(ku + k)]); }
        J ju = J::arr(), jd = J::arr(); for (int i : u2i) ju.push(i); for (int i : d2i) jd.push(i);
        c.model.set("Sz2_up", ju).set("Sz2_down", jd);
        Desc d2d = [&] { return "Sz(up=" + ju.str() + ", down=" + jd.str() + ") on " + std::to_string(M) + " modes"; };
        std::unique_ptr<PO::Sz> S2; bool threw2 = false; std::string exc2;
        try { S2.reset(new PO::Sz(u2, d2)); }
        catch (const LOp::exWrongLabel& e) { threw2 = true; exc2 = "exWrongLabel"; }
        catch (const std::exception& e) { threw2 = true; exc2 = e.what(); }
        c.features.set("sz2_valid", ku == kd);
        if (ku == kd) {
            c.check("Sz-shortcut-ctor", "C05:Sz-shortcut:ctor-unexpected-throw", !threw2, [&] { return d2d() + " threw " + exc2; });
            if (S2) {
                Poly pS;
                for (size_t k = 0; k < u2i.size(); ++k) { RefTerm t; t.ops = {FOp{true, u2i[k]}, FOp{false, u2i[k]}}; t.val = 0.5; pS.push_back(t); t.ops = {FOp{true, d2i[k]}, FOp{false, d2i[k]}}; t.val = -0.5; pS.push_back(t); }
                check_shortcut(c, *S2, M, pS, "Sz", d2d);
            }
        } else {
            c.count("sz_ctor_must_throw");
            c.check("Sz-shortcut-ctor", "C05:Sz-shortcut:ctor-no-throw", threw2, [&] { return d2d() + " did not throw although #up != #down"; });
        }
    }
    // algebra with the specialised objects as operands (sliced to Operator by the algebra)
    {
        LOp NN = Nobj * Nobj;
        observe(c, NN, M, mN * mN, (double)M * M, "N-times-N", "shortcut", [&] { return "N(" + std::to_string(M) + ")*N(" + std::to_string(M) + ")"; });
        if (M >= 2) c.count("multi_products");
        if (have_sz) {
            LOp NS = Nobj * (*S1);
            observe(c, NS, M, mN * mSz, (double)M * M, "N-times-Sz", "shortcut", [&] { return "N*Sz, " + d1(); });
            commutes_check(c, Nobj, *S1, mN, mSz, (double)M * M, "N,Sz", d1);
        }
        int i = (int)r.range(0, M - 1);
        commutes_check(c, Nobj, PO::c_dag((Pomerol::ParticleIndex)i), mN, jw_cdag(M, i), (double)M, "N,c+_i", [&] { return "N(" + std::to_string(M) + ") i=" + std::to_string(i); });
        observe(c, Nobj.getCommutator(PO::c_dag((Pomerol::ParticleIndex)i)), M, jw_cdag(M, i), 2.0 * M, "comm-N-cdag", "shortcut", [&] { return "N(" + std::to_string(M) + ").getCommutator(c_dag(" + std::to_string(i) + "))"; });
    }
    c.canon = "shortcut:" + std::to_string(hash_str(c.model.str()));
    c.nontrivial = c.counters["multi_products"] >= 1;
}

// ------------------------------------------------------------------------------------------------ kind: wide kets
// Fock states of 24..200 modes (beyond one and two machine words): the action of random polynomials on random kets against a
// bit-by-bit Jordan-Wigner reference that never forms a matrix.  Observed through actRight(ket), getMatrixElement(bra,ket) and the
// static actRight(monomial, ket).
typedef std::vector<char> WBits;
static bool wide_apply(const std::vector<FOp>& ops, WBits& b, int& sg) {   // rightmost factor acts first
    for (size_t k = ops.size(); k-- > 0;) {
        const FOp& f = ops[k];
        if ((bool)b[(size_t)f.idx] == f.dag) return false;
        int below = 0; for (int i = 0; i < f.idx; ++i) below += b[(size_t)i];
        if (below & 1) sg = -sg;
        b[(size_t)f.idx] = f.dag ? 1 : 0;
    }
    return true;
}
static FS wide_fs(const WBits& b) { FS s(b.size()); for (size_t i = 0; i < b.size(); ++i) s[i] = b[i] != 0; return s; }
static std::string wide_str(const WBits& b) { std::string s; for (size_t i = 0; i < b.size(); ++i) s += b[i] ? '1' : '0'; return s; }
static void run_wide(Ctx& c, long j) {
    Rng& r = c.rng;
    static const int Ms[] = {24, 31, 32, 33, 34, 40, 48, 63, 64, 65, 66, 70, 96, 128, 129, 200};
    const int M = Ms[j % 16];
    c.features.set("kind", "wide").set("M", M);
    c.canon = "wide|" + std::to_string(M) + "|" + std::to_string(j);
    long nonzero = 0, samples = c.thorough() ? 120 : 60;
    auto pick_idx = [&]() -> int {     // biased towards word boundaries and the top of the register
        int w = (int)r.range(0, 5);
        if (w == 0) return (int)r.range(std::max(0, M - 4), M - 1);
        if (w == 1 && M > 34) return (int)r.range(29, 36);
        if (w == 2 && M > 66) return (int)r.range(61, 68);
        return (int)r.range(0, M - 1);
    };
    for (long smp = 0; smp < samples; ++smp) {
        // ket with a random filling
        double fill = r.coin(0.3) ? 0.5 : r.uni(0.05, 0.95);
        WBits ket((size_t)M); for (int i = 0; i < M; ++i) ket[(size_t)i] = r.coin(fill) ? 1 : 0;
        // polynomial: 1-3 monomials of 1-4 factors; half of the monomials are made applicable to the ket
        Poly P; int nt = (int)r.range(1, 3);
        for (int t = 0; t < nt; ++t) {
            RefTerm T; T.val = pick_coef(r); int nf = (int)r.range(1, 4); bool fit = r.coin(0.6);
            WBits cur = ket; std::vector<FOp> rev;
            for (int f = 0; f < nf; ++f) { int idx = pick_idx(); bool dag = fit ? !cur[(size_t)idx] : r.coin(); cur[(size_t)idx] = dag; rev.push_back(FOp{dag, idx}); }
            T.ops.assign(rev.rbegin(), rev.rend());
            P.push_back(T);
        }
        LOp A = lib_poly(P, r);
        std::map<std::string, cd> ref;
        for (auto& T : P) { WBits b = ket; int sg = 1; if (wide_apply(T.ops, b, sg)) ref[wide_str(b)] += T.val * double(sg); }
        for (auto it = ref.begin(); it != ref.end();) { if (std::abs(it->second) < 1e-12) it = ref.erase(it); else ++it; }
        FS lket = wide_fs(ket);
        std::map<FS, Pomerol::MelemType> out = A.actRight(lket);
        std::map<std::string, cd> got; bool sizes_ok = true;
        for (auto& kv : out) { if ((int)kv.first.size() != M) sizes_ok = false; std::string s; for (size_t i = 0; i < kv.first.size(); ++i) s += kv.first[i] ? '1' : '0'; if (std::abs(to_cd(kv.second)) > 1e-12) got[s] += to_cd(kv.second); }
        Desc d = [&] { return "M=" + std::to_string(M) + " A=" + poly_str(P) + " ket(mode0 first)=" + wide_str(ket); };
        c.check("wide-state-size", "C05:actRight-state-size:wide", sizes_ok, [&] { return d() + ": actRight returned a state whose size is not the number of modes"; });
        double worst = 0; std::string wb;
        for (auto& kv : ref) { cd g = got.count(kv.first) ? got[kv.first] : cd(0, 0); double dd = std::abs(g - kv.second); if (dd > worst) { worst = dd; wb = kv.first; } }
        for (auto& kv : got) if (!ref.count(kv.first)) { double dd = std::abs(kv.second); if (dd > worst) { worst = dd; wb = kv.first; } }
        std::string wk = M <= 32 ? "le32" : (M <= 64 ? "33to64" : "gt64");
        c.cmp("wide-actRight", "C05:wide-actRight:" + wk, worst, 0.0, 1e-12 * sumabs(P), [&] { return d() + ": actRight(ket) differs from the bit-wise Jordan-Wigner action in the component of " + wb; });
        if (!ref.empty()) ++nonzero;
        // matrix elements with the reference's image states and with one state outside the image
        for (auto& kv : ref) {
            WBits bb((size_t)M); for (int i = 0; i < M; ++i) bb[(size_t)i] = kv.first[(size_t)i] == '1';
            cd me = to_cd(A.getMatrixElement(wide_fs(bb), lket));
            c.cmp("wide-melem", "C05:wide-melem:" + wk, me, kv.second, 1e-12 * sumabs(P), [&] { return d() + ": getMatrixElement(bra=" + kv.first + ", ket)"; });
        }
        // static action of each raw monomial
        for (auto& T : P) {
            LOp::monomial_t raw;
            for (auto& f : T.ops) raw.push_back(boost::make_tuple(f.dag ? LOp::creation : LOp::annihilation, (Pomerol::ParticleIndex)f.idx));
            FS o; Pomerol::MelemType v; boost::tie(o, v) = LOp::actRight(raw, lket);
            WBits b = ket; int sg = 1; bool alive = wide_apply(T.ops, b, sg);
            bool ok = alive ? ((int)o.size() == M && o == wide_fs(b) && std::abs(to_cd(v) - cd(double(sg), 0)) < 1e-12) : (o.size() == 0 || std::abs(to_cd(v)) == 0);
            c.check("wide-actRight-static", "C05:wide-actRight-static:" + wk, ok, [&] { return "M=" + std::to_string(M) + " monomial " + mono_str(T.ops) + " ket=" + wide_str(ket) + ": static actRight gives coefficient " + cstr(to_cd(v)) + ", expected " + (alive ? std::to_string(sg) : std::string("vanishing")); });
        }
    }
    c.count("wide_samples", samples); c.count("wide_nonvanishing", nonzero);
    c.nontrivial = nonzero >= 5;
}

// ------------------------------------------------------------------------------------------------ dispatch
static void opalg_run(Ctx& c) {
    static bool self_ok = jw_selfcheck();
    if (!self_ok) { c.violation("harness", "HARNESS:jw-selfcheck", "the harness's Jordan-Wigner construction failed its self-check"); return; }
    Layout y = layout(c.tier);
    long k = c.k;
    if (k < y.nMono) { run_mono(c, y, k); return; } k -= y.nMono;
    if (k < y.nPair) { run_pair(c, y, k); return; } k -= y.nPair;
    if (k < y.nTriple) { run_triple(c, y, k); return; } k -= y.nTriple;
    if (k < y.nCar) { run_car(c, k); return; } k -= y.nCar;
    if (k < y.nCpair) { run_cpair(c, y, k); return; } k -= y.nCpair;
    if (k < y.nShort) { run_shortcut(c, k); return; } k -= y.nShort;
    if (k < y.nEq) { run_equality(c, k); return; } k -= y.nEq;
    if (k < y.nRand) { run_random(c, k); return; } k -= y.nRand;
    run_wide(c, k);
}

VH_DRIVER(opalg, opalg_ncases, opalg_run);
