// C06 - results independent of MPI ranks and OpenMP threads; runs always terminate.
// MPI driver (mpiexec -np P vh par ...; also run as a plain process by the TSan flavour).  Every rank computes the reference on
// MPI_COMM_SELF with one OpenMP thread, then the same workflow on the world communicator with the configured thread count, and
// compares locally; what has to agree ACROSS ranks (eigen-data after a distributed step) is hashed and gathered on rank 0.
#include "common/vh.hpp"
#include "common/pipeline.hpp"
#include "common/oracle.hpp"
#include <boost/serialization/vector.hpp>
#include <boost/serialization/string.hpp>
#ifdef _OPENMP
#include <omp.h>
#endif
#ifdef POMEROL_VERIF
#include <mpi_dispatcher/verif_hooks.hpp>
#endif

using namespace vh;

static long par_ncases(const std::string& tier) { return tier == "thorough" ? 60 : 14; }

namespace {
typedef boost::tuple<Pomerol::ComplexType, Pomerol::ComplexType, Pomerol::ComplexType> ftuple;
typedef std::array<int, 4> Q4;
uint64_t fnv(const void* p, size_t n, uint64_t h = 1469598103934665603ULL) { const unsigned char* b = (const unsigned char*)p; for (size_t i = 0; i < n; ++i) { h ^= b[i]; h *= 1099511628211ULL; } return h; }

struct Spec { ModelSpec m; int pmode; std::vector<Q4> single; std::vector<Q4> contset; std::vector<Q4> second; std::vector<ftuple> freqs; std::vector<std::array<long, 3>> grid; bool clear1, clear2, split, usefreqs1, usefreqs2; };

struct Results {
    std::vector<double> evals; std::vector<uint64_t> eighash; double ground = 0;
    std::vector<std::vector<cd>> fops;           // dense images of the stored parts of c+_i, c_i (all i) and one c+_i c_j, computed with the given communicator
    std::vector<std::vector<cd>> tab1;           // per single quadruple: returned table
    std::vector<std::vector<cd>> grid1;          // per single quadruple: term evaluation on the grid (empty if purged / throws)
    std::vector<std::string> err1;
    std::map<Q4, std::vector<cd>> ctab;          // container: returned tables
    std::map<Q4, std::vector<cd>> cgrid;         // container: evaluation of every listed element
    std::map<Q4, std::string> cerr;
    std::map<Q4, std::vector<cd>> cgrid2;        // container after on-demand look-ups + a second bulk computation
    std::map<Q4, std::string> cerr2;
    long parts = 0, nontrivial_elems = 0;
};

Results workflow(const Spec& sp, const boost::mpi::communicator& comm) {
    Results R;
    Pipeline p; p.build_lattice(sp.m); p.build_states(sp.pmode); p.build_hamiltonian(comm); p.build_dm(sp.m.beta); p.build_ops();
    for (long b = 0; b < p.nblocks(); ++b) {
        const Pomerol::HamiltonianPart& hp = p.H->getPart(Pomerol::BlockNumber((int)b));
        const Pomerol::RealVectorType& ev = hp.getEigenValues(); const Pomerol::MatrixType& M = hp.getMatrix();
        for (long n = 0; n < ev.size(); ++n) R.evals.push_back(ev(n));
        R.eighash.push_back(fnv(M.data(), sizeof(Pomerol::MelemType) * (size_t)M.size(), fnv(ev.data(), sizeof(double) * (size_t)ev.size())));
    }
    R.ground = p.H->getGroundEnergy();
    {   // field operators computed one by one with THIS communicator (the container computes them with the default one)
        auto dump = [&](Pomerol::FieldOperator& fo) { std::vector<cd> v; const std::vector<Pomerol::FieldOperatorPart*>& ps = fo.getParts();
            for (size_t q = 0; q < ps.size(); ++q) { const Pomerol::RowMajorMatrixType& e = ps[q]->getRowMajorValue(); v.push_back(cd((double)e.rows(), (double)e.cols()));
                CMat d = CMat::Zero(e.rows(), e.cols()); for (int k = 0; k < e.outerSize(); ++k) for (Pomerol::RowMajorMatrixType::InnerIterator it(e, k); it; ++it) d(it.row(), it.col()) = to_cd(it.value());
                for (long a = 0; a < d.rows(); ++a) for (long b = 0; b < d.cols(); ++b) v.push_back(d(a, b)); }
            R.fops.push_back(v); };
        for (int i = 0; i < p.N; ++i) {
            Pomerol::CreationOperator CX(*p.IC, *p.S, *p.H, (Pomerol::ParticleIndex)i); CX.prepare(); CX.compute(comm); dump(CX);
            Pomerol::AnnihilationOperator C(*p.IC, *p.S, *p.H, (Pomerol::ParticleIndex)i); C.prepare(); C.compute(comm); dump(C);
        }
        Pomerol::QuadraticOperator Q(*p.IC, *p.S, *p.H, (Pomerol::ParticleIndex)0, (Pomerol::ParticleIndex)(p.N - 1)); Q.prepare(); Q.compute(comm); dump(Q);
        // and the container's operators (default communicator) must be the same matrices
        for (int i = 0; i < p.N; ++i) { dump(const_cast<Pomerol::CreationOperator&>(p.Ops->getCreationOperator((Pomerol::ParticleIndex)i))); dump(const_cast<Pomerol::AnnihilationOperator&>(p.Ops->getAnnihilationOperator((Pomerol::ParticleIndex)i))); }
    }
    auto mk = [&](const Q4& q) { return new Pomerol::TwoParticleGF(*p.S, *p.H, p.Ops->getAnnihilationOperator((Pomerol::ParticleIndex)q[0]), p.Ops->getAnnihilationOperator((Pomerol::ParticleIndex)q[1]), p.Ops->getCreationOperator((Pomerol::ParticleIndex)q[2]), p.Ops->getCreationOperator((Pomerol::ParticleIndex)q[3]), *p.DM); };
    for (auto& q : sp.single) {
        std::unique_ptr<Pomerol::TwoParticleGF> X(mk(q)); X->prepare(); R.parts += (long)X->parts.size();
        std::vector<Pomerol::ComplexType> t = X->compute(sp.clear1, sp.usefreqs1 ? sp.freqs : std::vector<ftuple>(), comm);
        R.tab1.push_back(std::vector<cd>(t.begin(), t.end()));
        std::vector<cd> gvals; std::string err;
        try { for (auto& g : sp.grid) gvals.push_back((*X)(g[0], g[1], g[2])); } catch (const std::exception& e) { err = e.what(); gvals.clear(); }
        R.grid1.push_back(gvals); R.err1.push_back(err);
    }
    if (!sp.contset.empty()) {
        Pomerol::TwoParticleGFContainer C(*p.IC, *p.S, *p.H, *p.DM, *p.Ops);
        std::set<Pomerol::IndexCombination4> S4; for (auto& q : sp.contset) S4.insert(Pomerol::IndexCombination4((Pomerol::ParticleIndex)q[0], (Pomerol::ParticleIndex)q[1], (Pomerol::ParticleIndex)q[2], (Pomerol::ParticleIndex)q[3]));
        C.prepareAll(S4); R.nontrivial_elems = (long)C.NonTrivialElements.size();
        std::map<Pomerol::IndexCombination4, std::vector<Pomerol::ComplexType>> out = C.computeAll(sp.clear2, sp.usefreqs2 ? sp.freqs : std::vector<ftuple>(), comm, sp.split);
        for (auto& kv : out) { Q4 q = {(int)kv.first.Index1, (int)kv.first.Index2, (int)kv.first.Index3, (int)kv.first.Index4}; R.ctab[q] = std::vector<cd>(kv.second.begin(), kv.second.end()); }
        for (auto it = C.ElementsMap.begin(); it != C.ElementsMap.end(); ++it) {
            Q4 q = {(int)it->first.Index1, (int)it->first.Index2, (int)it->first.Index3, (int)it->first.Index4};
            std::vector<cd> gvals; std::string err;
            try { for (auto& g : sp.grid) gvals.push_back(it->second(g[0], g[1], g[2])); } catch (const std::exception& e) { err = e.what(); gvals.clear(); }
            R.cgrid[q] = gvals; if (!err.empty()) R.cerr[q] = err;
        }
        // second phase: elements obtained on demand after the bulk computation are prepared, then a second bulk computation
        if (!sp.clear2 && !sp.second.empty()) {
            for (auto& q : sp.second) { Pomerol::TwoParticleGF& e = static_cast<Pomerol::TwoParticleGF&>(C(Pomerol::IndexCombination4((Pomerol::ParticleIndex)q[0], (Pomerol::ParticleIndex)q[1], (Pomerol::ParticleIndex)q[2], (Pomerol::ParticleIndex)q[3]))); if (e.getStatus() < Pomerol::TwoParticleGF::Prepared) e.prepare(); }
            C.computeAll(false, std::vector<ftuple>(), comm, sp.split);
            for (auto it = C.ElementsMap.begin(); it != C.ElementsMap.end(); ++it) {
                Q4 q = {(int)it->first.Index1, (int)it->first.Index2, (int)it->first.Index3, (int)it->first.Index4};
                std::vector<cd> gvals; std::string err;
                try { for (auto& g : sp.grid) gvals.push_back(it->second(g[0], g[1], g[2])); } catch (const std::exception& e) { err = e.what(); gvals.clear(); }
                R.cgrid2[q] = gvals; if (!err.empty()) R.cerr2[q] = err;
            }
        }
    }
    return R;
}
std::string qs(const Q4& q) { return std::to_string(q[0]) + std::to_string(q[1]) + std::to_string(q[2]) + std::to_string(q[3]); }
}

static void par_run(Ctx& c) {
    boost::mpi::communicator world; const int P = world.size(), me = world.rank();
    Rng& r = c.rng;   // identical on all ranks
    Spec sp;
    GenOpts g; g.min_modes = 2; g.max_modes = c.thorough() ? (r.coin(0.3) ? 4 : 3) : (r.coin(0.3) ? 4 : 2); g.beta_hi = 10; g.allow_six = false; g.hetero = true;
    g.pclasses = {"generic", "integers", "ph", "negU", "free", "atomic", "equal"};
    sp.m = gen_model(r, g); sp.pmode = (r.coin(0.25) || !sp.m.balanced_spins()) ? PM_IGNORE : PM_DEFAULT;
    const int N = sp.m.nmodes(); double beta = sp.m.beta;
    auto rq = [&]() { Q4 q = {(int)r.range(0, N - 1), (int)r.range(0, N - 1), (int)r.range(0, N - 1), (int)r.range(0, N - 1)}; return q; };
    { int a = (int)r.range(0, N - 1), b = (int)r.range(0, N - 1); sp.single.push_back({a, b, b, a}); if (r.coin()) sp.single.push_back(rq()); }
    // container components: sometimes fewer than, equal to, a non-multiple of, and more than the rank count; some vanish identically
    int ncomp = (int)r.range(1, 5); std::set<Q4> cs;
    for (int t = 0; t < 40 && (int)cs.size() < ncomp; ++t) { Q4 q = rq(); if (t % 3 == 0) { q[2] = q[1]; q[3] = q[0]; } if (q[0] > q[1]) std::swap(q[0], q[1]); if (q[2] > q[3]) std::swap(q[2], q[3]); cs.insert(q); }
    sp.contset.assign(cs.begin(), cs.end());
    if (r.coin(0.5)) { for (int t = 0; t < 30 && sp.second.size() < 2; ++t) { Q4 q = rq(); if (!cs.count(q)) sp.second.push_back(q); } }
    for (long a = -1; a <= 1; ++a) for (long b = -1; b <= 1; ++b) for (long d = -1; d <= 1; ++d) sp.grid.push_back({a, b, d});
    long nf = r.coin(0.3) ? 200 : (long)r.range(1, 30);
    for (long t = 0; t < nf; ++t) { long n1 = r.range(-6, 6), n2 = r.range(-6, 6), n3 = r.range(-6, 6); auto w = [&](long n) { return cd(0, (2 * n + 1) * M_PI / beta); }; sp.freqs.push_back(boost::make_tuple(w(n1), w(n2), w(n3))); }
    sp.clear1 = r.coin(); sp.clear2 = r.coin(); sp.split = r.coin(); sp.usefreqs1 = r.coin(0.7); sp.usefreqs2 = r.coin(0.7);
    if (c.k < 2) {
        // the first two cases are a fixed tiny workload (one Hubbard atom, frequency tables on both paths): few 2PGF parts, so that already a
        // handful of ranks exceeds the number of jobs of a dispatch round (ranks without a job take part in the reductions / broadcasts)
        sp.m = ModelSpec(); sp.m.pclass = "atom"; sp.m.beta = 3.0; SiteSpec s; s.label = "A"; s.norb = 1; s.nspin = 2; sp.m.sites.push_back(s);
        Op o; o.kind = Op::COULOMB_S; o.a = o.b = 0; o.v1 = 1.3; o.v2 = (c.k == 0 ? -0.4 : -0.65); sp.m.ops.push_back(o);
        sp.pmode = PM_DEFAULT; sp.single = {{0, 1, 1, 0}, {0, 0, 0, 0}}; sp.contset = {{0, 1, 0, 1}, {0, 1, 1, 0}}; sp.second.clear();
        sp.usefreqs1 = sp.usefreqs2 = true; sp.clear1 = (c.k == 1); sp.clear2 = (c.k == 1); sp.split = (c.k == 0);
        beta = sp.m.beta; sp.freqs.clear();
        for (long n1 = -2; n1 <= 1; ++n1) for (long n2 = -2; n2 <= 1; ++n2) for (long n3 = -1; n3 <= 1; ++n3) { auto w = [&](long n) { return cd(0, (2 * n + 1) * M_PI / beta); }; sp.freqs.push_back(boost::make_tuple(w(n1), w(n2), w(n3))); }
    }
    int threads = 1;
#ifdef _OPENMP
    threads = omp_get_max_threads();
#endif
    J desc = sp.m.describe(); desc.set("partition", pm_name(sp.pmode)).set("P", P).set("threads", threads).set("clear_single", sp.clear1).set("clear_container", sp.clear2).set("split", sp.split)
        .set("freqs_single", sp.usefreqs1 ? (long)sp.freqs.size() : 0L).set("freqs_container", sp.usefreqs2 ? (long)sp.freqs.size() : 0L);
    { J a = J::arr(); for (auto& q : sp.contset) a.push(qs(q)); desc.set("container_components", a); }
    { J a = J::arr(); for (auto& q : sp.second) a.push(qs(q)); desc.set("on_demand_then_second_bulk", a); }
    c.model = desc; c.canon = desc.str();

#ifdef POMEROL_VERIF
    pMPI::verif::event("h_case", c.k, 100 + (sp.split ? 1 : 0));
#endif
    // ---- reference: this rank alone, one thread
#ifdef _OPENMP
    omp_set_num_threads(1);
#endif
    Results ref = workflow(sp, boost::mpi::communicator(MPI_COMM_SELF, boost::mpi::comm_attach));
#ifdef _OPENMP
    omp_set_num_threads(threads);
#endif
    world.barrier();
    // ---- parallel run
    Results par = workflow(sp, world);

    // ---- local monitors (collected as strings, evaluated on rank 0)
    std::vector<std::string> viol; long nchk = 0;
    auto bad = [&](const std::string& key, const std::string& detail) { viol.push_back(key + "\x1f" + "rank " + std::to_string(me) + "/" + std::to_string(P) + " threads=" + std::to_string(threads) + ": " + detail); };
    double S = 1e-3 * beta * beta * beta;
    for (auto& t : ref.tab1) for (auto& v : t) S = std::max(S, std::abs(v));
    for (auto& t : ref.grid1) for (auto& v : t) S = std::max(S, std::abs(v));
    for (auto& kv : ref.cgrid) for (auto& v : kv.second) S = std::max(S, std::abs(v));
    for (auto& kv : ref.cgrid2) for (auto& v : kv.second) S = std::max(S, std::abs(v));
    const double tol = 1e-9 * S;
    std::string pk = "P" + std::string(P == 1 ? "=1" : ">1");
    // spectrum
    ++nchk; if (par.evals.size() != ref.evals.size()) bad("C06:spectrum-size", "eigenvalue count differs from the single-rank run");
    else for (size_t n = 0; n < ref.evals.size(); ++n) { ++nchk; if (!(std::abs(par.evals[n] - ref.evals[n]) <= 1e-10 * (1 + std::abs(ref.evals[n])))) { bad("C06:spectrum-vs-single-rank", "eigenvalue #" + std::to_string(n) + " " + fmt(par.evals[n]) + " vs " + fmt(ref.evals[n])); break; } }
    ++nchk; if (!(std::abs(par.ground - ref.ground) <= 1e-10 * (1 + std::abs(ref.ground)))) bad("C06:ground-energy-vs-single-rank", fmt(par.ground) + " vs " + fmt(ref.ground));
    // field operators: every rank must hold the same (complete) matrices as a single-rank run
    ++nchk; if (par.fops.size() != ref.fops.size()) bad("C06:field-operator:count", "number of field operators differs");
    else for (size_t k = 0; k < ref.fops.size(); ++k) { ++nchk;
        bool same = par.fops[k].size() == ref.fops[k].size(); double worst = 0;
        if (same) for (size_t w = 0; w < ref.fops[k].size(); ++w) worst = std::max(worst, std::abs(par.fops[k][w] - ref.fops[k][w]));
        if (!same || !(worst <= 1e-10)) { bad("C06:field-operator-vs-single-rank:" + pk, "field operator #" + std::to_string(k) + " (c+_i, c_i alternating, then c+_0 c_{N-1}, then the container's operators): stored parts differ from the single-rank computation (max deviation " + fmt(worst) + ", shapes equal: " + std::to_string(same) + ")"); break; } }
    // stand-alone 2PGF: table on the root, terms on every rank when kept
    for (size_t k = 0; k < sp.single.size(); ++k) {
        std::string q = "chi_" + qs(sp.single[k]) + (sp.clear1 ? " clear" : " keep") + (sp.usefreqs1 ? " freqs=" + std::to_string(sp.freqs.size()) : " nofreqs");
        if (me == 0) { ++nchk;
            if (par.tab1[k].size() != ref.tab1[k].size()) bad("C06:single:table-size", q + ": table has " + std::to_string(par.tab1[k].size()) + " entries, single-rank run " + std::to_string(ref.tab1[k].size()));
            else for (size_t w = 0; w < ref.tab1[k].size(); ++w) if (!(std::abs(par.tab1[k][w] - ref.tab1[k][w]) <= tol)) { bad("C06:single:table-on-root:" + pk, q + " entry " + std::to_string(w) + ": " + fmt(par.tab1[k][w]) + " vs single-rank " + fmt(ref.tab1[k][w]) + " (scale " + fmt(S) + ")"); break; } }
        if (!sp.clear1) { ++nchk;
            if (!par.err1[k].empty() && ref.err1[k].empty()) bad("C06:single:terms-not-evaluable", q + ": evaluation from the term representation throws on this rank: " + par.err1[k]);
            else for (size_t w = 0; w < ref.grid1[k].size() && w < par.grid1[k].size(); ++w) if (!(std::abs(par.grid1[k][w] - ref.grid1[k][w]) <= tol)) { bad("C06:single:terms-vs-single-rank:" + pk, q + " grid point " + std::to_string(w) + ": " + fmt(par.grid1[k][w]) + " vs " + fmt(ref.grid1[k][w])); break; } }
    }
    // container
    std::string ck = std::string(sp.split ? "split" : "nosplit");
    std::string cq = std::string("computeAll(") + (sp.clear2 ? "clear" : "keep") + (sp.usefreqs2 ? ",freqs=" + std::to_string(sp.freqs.size()) : ",nofreqs") + "," + ck + ") components=" + std::to_string(ref.nontrivial_elems) + " ranks=" + std::to_string(P);
    bool tables_here = sp.split || me == 0;     // split: the code distributes the tables to every rank; nosplit: the reduction lands on the root
    if (tables_here) for (auto& kv : ref.ctab) { ++nchk;
        auto it = par.ctab.find(kv.first);
        if (it == par.ctab.end()) { if (!kv.second.empty()) bad("C06:container:table-missing:" + ck, cq + ": no table returned for " + qs(kv.first)); continue; }
        if (it->second.size() != kv.second.size()) { bad("C06:container:table-size:" + ck, cq + ": table of " + qs(kv.first) + " has " + std::to_string(it->second.size()) + " entries, single-rank run " + std::to_string(kv.second.size())); continue; }
        for (size_t w = 0; w < kv.second.size(); ++w) if (!(std::abs(it->second[w] - kv.second[w]) <= tol)) { bad("C06:container:table:" + ck + ":" + pk, cq + ": " + qs(kv.first) + " entry " + std::to_string(w) + ": " + fmt(it->second[w]) + " vs single-rank " + fmt(kv.second[w]) + " (scale " + fmt(S) + ")"); break; } }
    if (!sp.clear2) for (auto& kv : ref.cgrid) { ++nchk;
        if (ref.cerr.count(kv.first)) continue;
        auto it = par.cgrid.find(kv.first);
        if (it == par.cgrid.end()) { bad("C06:container:element-missing:" + ck, cq + ": element " + qs(kv.first) + " not listed on this rank"); continue; }
        if (par.cerr.count(kv.first)) { bad("C06:container:element-not-evaluable:" + ck + ":" + pk, cq + ": element " + qs(kv.first) + " listed by the container throws on this rank: " + par.cerr[kv.first]); continue; }
        for (size_t w = 0; w < kv.second.size() && w < it->second.size(); ++w) if (!(std::abs(it->second[w] - kv.second[w]) <= tol)) { bad("C06:container:terms-vs-single-rank:" + ck + ":" + pk, cq + ": " + qs(kv.first) + " grid point " + std::to_string(w) + ": " + fmt(it->second[w]) + " vs " + fmt(kv.second[w])); break; } }

#ifdef POMEROL_VERIF
    pMPI::verif::event("h_case_done", c.k, 100 + (sp.split ? 1 : 0));
#endif
    for (auto& kv : ref.cgrid2) { ++nchk;
        if (ref.cerr2.count(kv.first)) continue;
        auto it = par.cgrid2.find(kv.first);
        if (it == par.cgrid2.end()) { bad("C06:container:second-bulk:element-missing:" + ck, cq + ": element " + qs(kv.first) + " not listed on this rank after on-demand look-ups and a second computeAll"); continue; }
        if (par.cerr2.count(kv.first)) { bad("C06:container:second-bulk:element-not-evaluable:" + ck + ":" + pk, cq + ": after on-demand look-ups + second computeAll element " + qs(kv.first) + " throws on this rank: " + par.cerr2[kv.first]); continue; }
        for (size_t w = 0; w < kv.second.size() && w < it->second.size(); ++w) if (!(std::abs(it->second[w] - kv.second[w]) <= tol)) { bad("C06:container:second-bulk:terms-vs-single-rank:" + ck + ":" + pk, cq + ": after on-demand look-ups + second computeAll " + qs(kv.first) + " grid point " + std::to_string(w) + ": " + fmt(it->second[w]) + " vs " + fmt(kv.second[w])); break; } }
    // ---- gather on rank 0: violations, counts, eigen-data hashes
    std::vector<std::vector<std::string>> allv; std::vector<std::vector<uint64_t>> allh; std::vector<long> alln;
    boost::mpi::gather(world, viol, allv, 0); boost::mpi::gather(world, par.eighash, allh, 0); boost::mpi::gather(world, nchk, alln, 0);
    if (me != 0) return;
    for (auto& vv : allv) for (auto& s : vv) { size_t cut = s.find('\x1f'); c.violation("rank-monitor", s.substr(0, cut), s.substr(cut + 1) + " | " + cq); }
    for (long n : alln) c.n_checks += n;
    for (int rk = 1; rk < P; ++rk) { ++c.n_checks; if (allh[(size_t)rk] != allh[0]) c.violation("eigen-data-identical", "C06:eigen-data-differs-between-ranks", "block eigenvalues/eigenvectors on rank " + std::to_string(rk) + " are not byte-identical to rank 0 after Hamiltonian::compute(comm)"); }
    c.features.set("P", P).set("threads", threads).set("split", sp.split).set("blocks", (long)ref.eighash.size()).set("components", ref.nontrivial_elems).set("parts_single", ref.parts)
        .set("components_vs_ranks", ref.nontrivial_elems < P ? "fewer" : (ref.nontrivial_elems == P ? "equal" : (ref.nontrivial_elems % P ? "more-nonmultiple" : "more-multiple")));
    long vanishing = 0; for (auto& kv : ref.ctab) if (kv.second.empty()) ++vanishing; c.count("vanishing_components", vanishing); c.count("components", ref.nontrivial_elems);
    c.nontrivial = ref.parts > 0;
}

VH_DRIVER(par, par_ncases, par_run);
