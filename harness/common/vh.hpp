// Core of the verification harness: PRNG, JSON values, case context, driver registry.
#pragma once
#include <pomerol.h>
#include <Eigen/Dense>
#include <cstdint>
#include <cstdio>
#include <cmath>
#include <complex>
#include <functional>
#include <map>
#include <set>
#include <sstream>
#include <string>
#include <vector>
#include <memory>

namespace vh {

typedef std::complex<double> cd;
typedef Eigen::Matrix<cd, Eigen::Dynamic, Eigen::Dynamic> CMat;
typedef Eigen::Matrix<cd, Eigen::Dynamic, 1> CVec;
typedef Eigen::VectorXd RVec;

#ifdef VH_CPLX
static const bool kComplexBuild = true;
#else
static const bool kComplexBuild = false;
#endif

inline cd to_cd(double x) { return cd(x, 0.0); }
inline cd to_cd(const cd& x) { return x; }
inline Pomerol::MelemType to_melem(const cd& x) {
#ifdef VH_CPLX
    return x;
#else
    return x.real();
#endif
}

// ---------------------------------------------------------------- PRNG (own implementation, identical in all flavours)
inline uint64_t splitmix64(uint64_t& x) {
    uint64_t z = (x += 0x9e3779b97f4a7c15ULL);
    z = (z ^ (z >> 30)) * 0xbf58476d1ce4e5b9ULL;
    z = (z ^ (z >> 27)) * 0x94d049bb133111ebULL;
    return z ^ (z >> 31);
}
inline uint64_t hash_str(const std::string& s) {
    uint64_t h = 1469598103934665603ULL;
    for (unsigned char c : s) { h ^= c; h *= 1099511628211ULL; }
    return h;
}
struct Rng {
    uint64_t s[4];
    explicit Rng(uint64_t seed = 1) { reseed(seed); }
    void reseed(uint64_t seed) { uint64_t x = seed; for (int i = 0; i < 4; ++i) s[i] = splitmix64(x); }
    static Rng for_case(uint64_t seed, const std::string& driver, uint64_t k, uint64_t stream = 0) {
        uint64_t x = seed * 0x9e3779b97f4a7c15ULL ^ hash_str(driver);
        uint64_t a = splitmix64(x); x ^= k * 0xd1342543de82ef95ULL + stream * 0x2545F4914F6CDD1DULL; uint64_t b = splitmix64(x);
        return Rng(a ^ (b << 1) ^ k);
    }
    static inline uint64_t rotl(uint64_t x, int k) { return (x << k) | (x >> (64 - k)); }
    uint64_t next() {
        uint64_t r = rotl(s[1] * 5, 7) * 9, t = s[1] << 17;
        s[2] ^= s[0]; s[3] ^= s[1]; s[1] ^= s[2]; s[0] ^= s[3]; s[2] ^= t; s[3] = rotl(s[3], 45);
        return r;
    }
    double uni() { return (next() >> 11) * (1.0 / 9007199254740992.0); }           // [0,1)
    double uni(double a, double b) { return a + (b - a) * uni(); }
    long range(long a, long b) { return a + (long)(next() % (uint64_t)(b - a + 1)); } // inclusive
    bool coin(double p = 0.5) { return uni() < p; }
    double logu(double a, double b) { return std::exp(uni(std::log(a), std::log(b))); }
    template <class T> const T& pick(const std::vector<T>& v) { return v[(size_t)range(0, (long)v.size() - 1)]; }
    double sym(double a) { return uni(-a, a); }
};

// ---------------------------------------------------------------- JSON value
struct J {
    enum T { NUL, BOOL, NUM, INT, STR, ARR, OBJ } t = NUL;
    bool b = false; double d = 0; long long i = 0; std::string s;
    std::vector<J> a; std::vector<std::pair<std::string, J>> o;
    J() {}
    J(bool v) : t(BOOL), b(v) {}
    J(int v) : t(INT), i(v) {}
    J(long v) : t(INT), i(v) {}
    J(long long v) : t(INT), i(v) {}
    J(unsigned v) : t(INT), i(v) {}
    J(unsigned long v) : t(INT), i((long long)v) {}
    J(double v) : t(NUM), d(v) {}
    J(const char* v) : t(STR), s(v) {}
    J(const std::string& v) : t(STR), s(v) {}
    J(const cd& v) : t(ARR) { a.push_back(J(v.real())); a.push_back(J(v.imag())); }
    static J arr() { J j; j.t = ARR; return j; }
    static J obj() { J j; j.t = OBJ; return j; }
    J& push(const J& v) { t = ARR; a.push_back(v); return *this; }
    J& set(const std::string& k, const J& v) {
        t = OBJ;
        for (auto& kv : o) if (kv.first == k) { kv.second = v; return *this; }
        o.push_back(std::make_pair(k, v)); return *this;
    }
    static void esc(std::ostream& os, const std::string& s) {
        os << '"';
        for (unsigned char c : s) {
            if (c == '"') os << "\\\""; else if (c == '\\') os << "\\\\"; else if (c == '\n') os << "\\n";
            else if (c == '\t') os << "\\t"; else if (c < 0x20) { char b[8]; snprintf(b, 8, "\\u%04x", c); os << b; }
            else os << c;
        }
        os << '"';
    }
    void dump(std::ostream& os) const {
        switch (t) {
        case NUL: os << "null"; break;
        case BOOL: os << (b ? "true" : "false"); break;
        case INT: os << i; break;
        case NUM: if (std::isfinite(d)) { char buf[40]; snprintf(buf, 40, "%.17g", d); os << buf; } else os << (std::isnan(d) ? "\"nan\"" : (d > 0 ? "\"inf\"" : "\"-inf\"")); break;
        case STR: esc(os, s); break;
        case ARR: os << '['; for (size_t k = 0; k < a.size(); ++k) { if (k) os << ','; a[k].dump(os); } os << ']'; break;
        case OBJ: os << '{'; for (size_t k = 0; k < o.size(); ++k) { if (k) os << ','; esc(os, o[k].first); os << ':'; o[k].second.dump(os); } os << '}'; break;
        }
    }
    std::string str() const { std::ostringstream os; dump(os); return os.str(); }
};

// ---------------------------------------------------------------- case context
struct Violation { std::string monitor, key, detail; };

// Object life cycle used by Pipeline for the current case: 0 = construct each object right before it is computed (the tutorial's order),
// 1 = "declare first": every object of the workflow is constructed up front - before the symbolic Hamiltonian is prepared, the
// symmetry analysis has run or anything was diagonalised - and the prepare()/compute() stages run afterwards in the documented order.
// All constructors take references only, so both orders are legal and must give the same results.  Set per case by main().
inline int& lifecycle_mode() { static int m = 0; return m; }

struct Ctx {
    uint64_t seed = 1; std::string tier = "quick"; std::string driver; long k = 0; bool replay = false;
    Rng rng;
    // results of the current case
    J model = J::obj(); J features = J::obj(); J extra = J::obj();
    long n_checks = 0; double max_ratio = 0; bool nontrivial = false; std::string canon; bool skipped = false;
    std::vector<Violation> viol;
    std::map<std::string, long> counters;
    std::map<std::string, double> ratios;   // max ratio per monitor
    bool thorough() const { return tier == "thorough"; }
    void count(const std::string& c, long n = 1) { counters[c] += n; }
    void violation(const std::string& monitor, const std::string& key, const std::string& detail) {
        for (auto& v : viol) if (v.key == key) return;   // one witness per key and case is enough
        Violation v; v.monitor = monitor; v.key = key; v.detail = detail; viol.push_back(v);
    }
    // boolean monitor
    bool check(const std::string& monitor, const std::string& key, bool ok, const std::function<std::string()>& detail) {
        ++n_checks; counters["chk:" + monitor]++;
        if (!ok) violation(monitor, key, detail());
        return ok;
    }
    // numeric monitor |lib-ref| <= tol
    bool cmp(const std::string& monitor, const std::string& key, cd lib, cd ref, double tol, const std::function<std::string()>& detail) {
        ++n_checks; counters["chk:" + monitor]++;
        double diff = std::abs(lib - ref);
        bool fin = std::isfinite(lib.real()) && std::isfinite(lib.imag());
        double r = fin ? (tol > 0 ? diff / tol : (diff == 0 ? 0 : 1e300)) : 1e300;
        if (r > max_ratio) max_ratio = r;
        double& mr = ratios[monitor]; if (r > mr) mr = r;
        if (!(r <= 1.0)) {
            std::ostringstream os; os.precision(17);
            os << detail() << " lib=(" << lib.real() << "," << lib.imag() << ") ref=(" << ref.real() << "," << ref.imag() << ") |diff|=" << diff << " tol=" << tol;
            violation(monitor, key, os.str());
            return false;
        }
        return true;
    }
};

struct Driver {
    const char* name;
    std::function<long(const std::string& tier)> ncases;
    std::function<void(Ctx&)> run;
};
std::vector<Driver>& registry();
struct Registrar { Registrar(const Driver& d) { registry().push_back(d); } };
#define VH_DRIVER(NAME, NCASES_FN, RUN_FN) static ::vh::Registrar vh_reg_##NAME(::vh::Driver{#NAME, NCASES_FN, RUN_FN})

inline std::string fmt(double x) { char b[40]; snprintf(b, 40, "%.6g", x); return b; }
inline std::string fmt(const cd& x) { return "(" + fmt(x.real()) + "," + fmt(x.imag()) + ")"; }

}  // namespace vh
