// Wrapper that drives the real library through its documented workflow and exposes what monitors observe.
#pragma once
#include "common/vh.hpp"
#include "common/jw.hpp"
#include "common/model.hpp"

namespace vh {

enum PartMode { PM_DEFAULT = 0, PM_IGNORE = 1, PM_CUSTOM = 2 };
inline const char* pm_name(int m) { static const char* n[] = {"default", "ignored", "custom"}; return n[m]; }

struct Pipeline {
    ModelSpec spec;
    Pomerol::Lattice L;
    std::unique_ptr<Pomerol::IndexClassification> IC;
    std::unique_ptr<Pomerol::IndexHamiltonian> Storage;
    std::unique_ptr<Pomerol::Symmetrizer> Symm;
    std::unique_ptr<Pomerol::StatesClassification> S;
    std::unique_ptr<Pomerol::Hamiltonian> H;
    std::unique_ptr<Pomerol::DensityMatrix> DM;
    std::unique_ptr<Pomerol::FieldOperatorContainer> Ops;
    int N = 0; long dim = 0;
    int mode = PM_DEFAULT;
    int n_accepted_ioms = 0;
    bool declare_first = lifecycle_mode() == 1;   // see vh.hpp
    bool states_done = false, ham_done = false, dm_done = false, ops_done = false;

    // stage 1: lattice + indices + symbolic Hamiltonian
    void build_lattice(const ModelSpec& m) {
        spec = m;
        if (declare_first) {      // every object exists before the lattice has a single site or term
            IC.reset(new Pomerol::IndexClassification(L.getSiteMap()));
            Storage.reset(new Pomerol::IndexHamiltonian(&L, *IC));
            Symm.reset(new Pomerol::Symmetrizer(*IC, *Storage));
            S.reset(new Pomerol::StatesClassification(*IC, *Symm));
            H.reset(new Pomerol::Hamiltonian(*IC, *Storage, *S));
            DM.reset(new Pomerol::DensityMatrix(*S, *H, m.beta));
            Ops.reset(new Pomerol::FieldOperatorContainer(*IC, *S, *H));
        }
        apply_model(m, L);
        if (!declare_first) IC.reset(new Pomerol::IndexClassification(L.getSiteMap()));
        IC->prepare(m.spin_major);
        N = (int)IC->getIndexSize(); dim = 1L << N;
        if (!declare_first) Storage.reset(new Pomerol::IndexHamiltonian(&L, *IC));
        Storage->prepare();
    }
    // a driver that changed the lattice after build_lattice() re-reads the symbolic Hamiltonian; objects declared early refer to the old one
    void rebuild_storage() {
        if (declare_first) { Ops.reset(); DM.reset(); H.reset(); S.reset(); Symm.reset(); }
        Storage.reset(new Pomerol::IndexHamiltonian(&L, *IC));
        if (declare_first) {
            Symm.reset(new Pomerol::Symmetrizer(*IC, *Storage));
            S.reset(new Pomerol::StatesClassification(*IC, *Symm));
            H.reset(new Pomerol::Hamiltonian(*IC, *Storage, *S));
            DM.reset(new Pomerol::DensityMatrix(*S, *H, spec.beta));
            Ops.reset(new Pomerol::FieldOperatorContainer(*IC, *S, *H));
        }
        Storage->prepare();
    }
    // stage 2: symmetry analysis + state classification
    void build_states(int pmode, const std::vector<Pomerol::Operator>& ioms = std::vector<Pomerol::Operator>()) {
        mode = pmode;
        if (!declare_first || states_done) {      // a second analysis on the same pipeline always gets fresh objects
            Symm.reset(new Pomerol::Symmetrizer(*IC, *Storage));
            if (declare_first) { S.reset(); H.reset(); DM.reset(); Ops.reset(); declare_first = false; }
        }
        if (pmode == PM_CUSTOM) Symm->compute(ioms); else Symm->compute(pmode == PM_IGNORE);
        n_accepted_ioms = (int)Symm->getOperations().size();
        if (!declare_first) S.reset(new Pomerol::StatesClassification(*IC, *Symm));
        S->compute();
        states_done = true;
    }
    // stage 3: Hamiltonian
    void build_hamiltonian(bool compute = true) {
        if (!declare_first || ham_done) { H.reset(new Pomerol::Hamiltonian(*IC, *Storage, *S)); if (declare_first) { DM.reset(); Ops.reset(); declare_first = false; } }
        ham_done = true;
        H->prepare();
        if (compute) H->compute();
    }
    void build_hamiltonian(const boost::mpi::communicator& comm) {
        if (!declare_first || ham_done) { H.reset(new Pomerol::Hamiltonian(*IC, *Storage, *S)); if (declare_first) { DM.reset(); Ops.reset(); declare_first = false; } }
        ham_done = true;
        H->prepare(comm);
        H->compute(comm);
    }
    void build_dm(double beta) {
        if (!declare_first || dm_done || !DM || beta != spec.beta) DM.reset(new Pomerol::DensityMatrix(*S, *H, beta));
        dm_done = true; DM->prepare(); DM->compute();
    }
    void build_ops() {
        if (!declare_first || ops_done || !Ops) Ops.reset(new Pomerol::FieldOperatorContainer(*IC, *S, *H));
        ops_done = true; Ops->prepareAll(); Ops->computeAll();
    }

    void build_all(const ModelSpec& m, int pmode, const std::vector<Pomerol::Operator>& ioms = std::vector<Pomerol::Operator>()) {
        build_lattice(m); build_states(pmode, ioms); build_hamiltonian(true); build_dm(m.beta); build_ops();
    }

    int index_of(int site, int orb, int spin) const {
        return (int)IC->getIndex(spec.sites[(size_t)site].label, (unsigned short)orb, (unsigned short)spin);
    }

    // reference terms read from the lattice's term storage (what the user asked for), indices through IndexClassification
    std::vector<RefTerm> ref_terms() const {
        std::vector<RefTerm> out;
        const Pomerol::Lattice::TermStorage& ts = L.getTermStorage();
        for (unsigned n = 1; n <= ts.getMaxTermOrder(); ++n) {
            const Pomerol::Lattice::TermList& tl = ts.getTerms(n);
            for (Pomerol::Lattice::TermList::const_iterator it = tl.begin(); it != tl.end(); ++it) {
                const Pomerol::Lattice::Term& T = **it;
                RefTerm t; t.val = to_cd(T.Value);
                for (unsigned k = 0; k < T.getOrder(); ++k) {
                    FOp o; o.dag = T.OperatorSequence[k]; o.idx = (int)IC->getIndex(T.SiteLabels[k], T.Orbitals[k], T.Spins[k]);
                    t.ops.push_back(o);
                }
                out.push_back(t);
            }
        }
        return out;
    }
    CMat ref_H() const { return jw_matrix(N, ref_terms()); }

    // ---- observation helpers -------------------------------------------------------------
    long nblocks() const { return (long)(int)S->NumberOfBlocks(); }
    // library eigenbasis expanded in Fock space: columns = eigenstates in block order
    struct LibBasis { CMat U; RVec E; std::vector<int> block; std::vector<long> offset; };
    LibBasis lib_basis() const {
        LibBasis b; b.U = CMat::Zero(dim, dim); b.E = RVec::Zero(dim); b.block.assign((size_t)dim, -1);
        long off = 0;
        for (long blk = 0; blk < nblocks(); ++blk) {
            const Pomerol::HamiltonianPart& p = H->getPart(Pomerol::BlockNumber((int)blk));
            const std::vector<Pomerol::FockState>& st = S->getFockStates(Pomerol::BlockNumber((int)blk));
            const Pomerol::MatrixType& M = p.getMatrix();
            const Pomerol::RealVectorType& ev = p.getEigenValues();
            b.offset.push_back(off);
            for (long n = 0; n < (long)st.size(); ++n) {
                for (long l = 0; l < (long)st.size(); ++l) b.U((long)st[(size_t)l].to_ulong(), off + n) = to_cd(M(l, n));
                b.E(off + n) = ev(n); b.block[(size_t)(off + n)] = (int)blk;
            }
            off += (long)st.size();
        }
        return b;
    }
    RVec lib_weights() const {   // in the same order as lib_basis columns
        RVec w(dim); long off = 0;
        for (long blk = 0; blk < nblocks(); ++blk) {
            const Pomerol::DensityMatrixPart& p = DM->getPart(Pomerol::BlockNumber((int)blk));
            long sz = (long)S->getBlockSize(Pomerol::BlockNumber((int)blk));
            for (long n = 0; n < sz; ++n) w(off + n) = p.getWeight((Pomerol::InnerQuantumState)n);
            off += sz;
        }
        return w;
    }
};

// Integrals of motion used for custom partitions of the "benign" kind: linear, small-integer coefficients.
// Returns the operator; `coeffs` gives a_i in sum_i a_i n_i.
inline Pomerol::Operator linear_iom(const std::vector<int>& coeffs) {
    Pomerol::Operator op;
    for (size_t i = 0; i < coeffs.size(); ++i) if (coeffs[i] != 0) op += Pomerol::OperatorPresets::n((Pomerol::ParticleIndex)i) * Pomerol::MelemType(double(coeffs[i]));
    return op;
}
inline CMat linear_iom_matrix(int N, const std::vector<int>& coeffs) {
    long dim = 1L << N; CMat M = CMat::Zero(dim, dim);
    for (long s = 0; s < dim; ++s) { double q = 0; for (int i = 0; i < N; ++i) if (s >> i & 1) q += coeffs[(size_t)i]; M(s, s) = q; }
    return M;
}

}  // namespace vh
