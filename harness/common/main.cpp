// vh <driver> --seed S --tier quick|thorough --from A --to B [--only K] --out FILE [--verbose]
// Protocol on FILE (one write() per line, append): "BEGIN k", "CASE {json}", "END".
// A crash is attributed by the runner to the last BEGIN without CASE.
#include "common/vh.hpp"
#include <fcntl.h>
#include <unistd.h>
#include <cstring>
#include <cstdlib>
#include <exception>

namespace vh {
std::vector<Driver>& registry() { static std::vector<Driver> r; return r; }
}

static int g_out = 2;
static void emit(const std::string& line) {
    std::string l = line + "\n";
    const char* p = l.data(); size_t n = l.size();
    while (n) { ssize_t w = write(g_out, p, n); if (w <= 0) break; p += w; n -= (size_t)w; }
}

int main(int argc, char** argv) {
    using namespace vh;
    if (argc < 2) { fprintf(stderr, "usage: vh <driver>|--list ...\n"); return 2; }
    std::string dname = argv[1];
    if (dname == "--list") { for (auto& d : registry()) printf("%s\n", d.name); return 0; }
    uint64_t seed = 1; std::string tier = "quick", out; long from = 0, to = -1, only = -1, stride = 1; bool verbose = false, count_only = false;
    for (int i = 2; i < argc; ++i) {
        std::string a = argv[i];
        auto nxt = [&]() -> std::string { if (i + 1 >= argc) { fprintf(stderr, "missing value for %s\n", a.c_str()); exit(2); } return argv[++i]; };
        if (a == "--seed") seed = strtoull(nxt().c_str(), 0, 10);
        else if (a == "--tier") tier = nxt();
        else if (a == "--from") from = atol(nxt().c_str());
        else if (a == "--to") to = atol(nxt().c_str());
        else if (a == "--only") only = atol(nxt().c_str());
        else if (a == "--stride") stride = std::max(1L, atol(nxt().c_str()));
        else if (a == "--out") out = nxt();
        else if (a == "--verbose") verbose = true;
        else if (a == "--ncases") count_only = true;
        else { fprintf(stderr, "unknown arg %s\n", a.c_str()); return 2; }
    }
    const Driver* drv = nullptr;
    for (auto& d : registry()) if (dname == d.name) drv = &d;
    if (!drv) { fprintf(stderr, "unknown driver %s\n", dname.c_str()); return 2; }
    long n = drv->ncases(tier);
    if (count_only) { printf("%ld\n", n); return 0; }
    if (to < 0 || to > n) to = n;
    if (only >= 0) { from = only; to = only + 1; }
    if (!out.empty() && out != "/dev/null") { const char* wr = getenv("OMPI_COMM_WORLD_RANK"); if (wr && getenv("OMPI_COMM_WORLD_SIZE") && atoi(getenv("OMPI_COMM_WORLD_SIZE")) >= 1 && getenv("VH_MPI_RUN")) out += std::string(".rank") + wr; }
    if (!out.empty()) {
        g_out = open(out.c_str(), O_WRONLY | O_CREAT | O_APPEND, 0644);
        if (g_out < 0) { perror("open --out"); return 2; }
    }
    // library chatter goes to stdout; keep it away from the protocol stream
    if (!verbose) { int dn = open("/dev/null", O_WRONLY); if (dn >= 0) { fflush(stdout); dup2(dn, 1); close(dn); } }

    boost::mpi::environment env(argc, argv);

    const bool err_markers = getenv("VH_STDERR_MARKERS") != nullptr;
    for (long k = from; k < to; k += stride) {
        emit("BEGIN " + std::to_string(k));
        if (err_markers) { fflush(stderr); fprintf(stderr, "\nVH-BEGIN %ld\n", k); fflush(stderr); }
        Ctx c; c.seed = seed; c.tier = tier; c.driver = dname; c.k = k; c.replay = (only >= 0);
        c.rng = Rng::for_case(seed, dname, (uint64_t)k);
        lifecycle_mode() = (k % 5 == 3) ? 1 : 0;
        if (lifecycle_mode()) c.features.set("declare_first", true);
        try {
            drv->run(c);
        } catch (const std::exception& e) {
            c.violation("harness", dname + ":uncaught-exception:" + std::string(e.what()), std::string("uncaught std::exception: ") + e.what());
        } catch (...) {
            c.violation("harness", dname + ":uncaught-exception:unknown", "uncaught non-std exception");
        }
        J r = J::obj();
        r.set("case", k).set("model", c.model).set("features", c.features).set("extra", c.extra)
         .set("n_checks", c.n_checks).set("max_ratio", c.max_ratio).set("nontrivial", c.nontrivial)
         .set("canon", c.canon).set("skipped", c.skipped);
        J cnt = J::obj(); for (auto& kv : c.counters) cnt.set(kv.first, kv.second); r.set("counters", cnt);
        J rat = J::obj(); for (auto& kv : c.ratios) rat.set(kv.first, kv.second); r.set("ratios", rat);
        J vs = J::arr();
        for (auto& v : c.viol) vs.push(J::obj().set("monitor", v.monitor).set("key", v.key).set("detail", v.detail));
        r.set("violations", vs);
        emit("CASE " + r.str());
        if (c.replay) {
            fflush(stdout);
            fprintf(stderr, "replay case %ld of %s (seed %llu, tier %s, flavour %s)\n%s\n", k, dname.c_str(), (unsigned long long)seed, tier.c_str(), VH_FLAVOUR, r.str().c_str());
        }
    }
    emit("END");
    return 0;
}
