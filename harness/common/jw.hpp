// O1: Jordan-Wigner algebra on the full 2^N Fock space, written independently of Pomerol::Operator.
// Mode i <-> bit i of the state label; c_i |s> = (-1)^{#occupied modes below i} |s - 2^i>.
#pragma once
#include "common/vh.hpp"

namespace vh {

struct FOp { bool dag; int idx; };
struct RefTerm { std::vector<FOp> ops; cd val; };   // val * ops[0] ops[1] ... (ops[0] leftmost)

inline int popcount64(uint64_t x) { return __builtin_popcountll(x); }

// apply a single operator to basis state s; returns false if annihilated
inline bool jw_apply(const FOp& o, uint64_t& s, int& sign) {
    uint64_t bit = 1ULL << o.idx;
    bool occ = (s & bit) != 0;
    if (o.dag == occ) return false;
    if (popcount64(s & (bit - 1)) & 1) sign = -sign;
    s ^= bit;
    return true;
}
// apply a monomial (rightmost operator acts first)
inline bool jw_apply(const std::vector<FOp>& ops, uint64_t& s, int& sign) {
    for (int k = (int)ops.size() - 1; k >= 0; --k) if (!jw_apply(ops[(size_t)k], s, sign)) return false;
    return true;
}

inline CMat jw_matrix(int N, const std::vector<RefTerm>& terms) {
    const long dim = 1L << N;
    CMat M = CMat::Zero(dim, dim);
    for (const auto& t : terms) {
        if (t.val == cd(0, 0)) continue;
        for (long s = 0; s < dim; ++s) {
            uint64_t r = (uint64_t)s; int sg = 1;
            if (jw_apply(t.ops, r, sg)) M((long)r, s) += t.val * double(sg);
        }
    }
    return M;
}
inline CMat jw_c(int N, int i) { RefTerm t; t.ops.push_back(FOp{false, i}); t.val = 1; return jw_matrix(N, {t}); }
inline CMat jw_cdag(int N, int i) { RefTerm t; t.ops.push_back(FOp{true, i}); t.val = 1; return jw_matrix(N, {t}); }
inline CMat jw_n(int N, int i) { RefTerm t; t.ops.push_back(FOp{true, i}); t.ops.push_back(FOp{false, i}); t.val = 1; return jw_matrix(N, {t}); }
inline CMat jw_quad(int N, int i, int j) { RefTerm t; t.ops.push_back(FOp{true, i}); t.ops.push_back(FOp{false, j}); t.val = 1; return jw_matrix(N, {t}); }

// one-time self-check of the construction: {c_i, c+_j} = delta_ij, {c_i,c_j}=0 for N=3
inline bool jw_selfcheck() {
    const int N = 3;
    for (int i = 0; i < N; ++i) for (int j = 0; j < N; ++j) {
        CMat a = jw_c(N, i), b = jw_cdag(N, j), c2 = jw_c(N, j);
        CMat ac = a * b + b * a;
        CMat want = (i == j) ? CMat(CMat::Identity(8, 8)) : CMat(CMat::Zero(8, 8));
        if ((ac - want).norm() > 1e-14) return false;
        if ((a * c2 + c2 * a).norm() > 1e-14) return false;
        if ((b - a.adjoint()).norm() > 1e-14 && i == j) return false;
    }
    return true;
}

}  // namespace vh
