// Custom partitions of the benign kind (linear integrals of motion with small integer coefficients, confirmed to be
// conserved by the harness's own commutator with the reference Hamiltonian).  Hostile candidates live in the C07 driver.
#pragma once
#include "common/pipeline.hpp"

namespace vh {

inline bool conserved(const CMat& Href, const std::vector<int>& coeffs, int N) {
    long dim = 1L << N;
    // [H, Q] = 0 with Q diagonal  <=>  H(s',s) (q(s) - q(s')) = 0 for all elements
    std::vector<double> q((size_t)dim, 0.0);
    for (long s = 0; s < dim; ++s) for (int i = 0; i < N; ++i) if (s >> i & 1) q[(size_t)s] += coeffs[(size_t)i];
    for (long a = 0; a < dim; ++a) for (long b = 0; b < dim; ++b)
        if (std::abs(Href(a, b)) > 1e-13 && q[(size_t)a] != q[(size_t)b]) return false;
    return true;
}

inline std::vector<std::vector<int>> candidate_linear_ioms(const Pipeline& p) {
    const int N = p.N;
    std::vector<std::vector<int>> out;
    out.push_back(std::vector<int>((size_t)N, 1));                                  // N
    std::map<std::string, std::vector<int>> bysite; std::map<int, std::vector<int>> byspin, byorb;
    std::vector<int> sz((size_t)N, 0); bool has_sz = false;
    for (int i = 0; i < N; ++i) {
        Pomerol::IndexClassification::IndexInfo info = p.IC->getInfo((Pomerol::ParticleIndex)i);
        auto& a = bysite[info.SiteLabel]; a.resize((size_t)N, 0); a[(size_t)i] = 1;
        auto& b = byspin[info.Spin]; b.resize((size_t)N, 0); b[(size_t)i] = 1;
        auto& o = byorb[info.Orbital]; o.resize((size_t)N, 0); o[(size_t)i] = 1;
        if (info.Spin == 1) { sz[(size_t)i] = 1; has_sz = true; } else if (info.Spin == 0) sz[(size_t)i] = -1;
    }
    if (has_sz) out.push_back(sz);                                                   // 2 S_z
    for (auto& kv : bysite) out.push_back(kv.second);
    for (auto& kv : byspin) out.push_back(kv.second);
    for (auto& kv : byorb) out.push_back(kv.second);
    for (int i = 0; i < N; ++i) { std::vector<int> e((size_t)N, 0); e[(size_t)i] = 1; out.push_back(e); }   // single occupation numbers
    return out;
}

// choose 1..3 conserved linear integer integrals of motion (possibly integer combinations)
inline std::vector<Pomerol::Operator> benign_ioms(Rng& r, const Pipeline& p, const CMat& Href, J& desc) {
    std::vector<std::vector<int>> cand = candidate_linear_ioms(p), good;
    for (auto& cnd : cand) if (conserved(Href, cnd, p.N)) good.push_back(cnd);
    std::vector<Pomerol::Operator> out;
    if (good.empty()) return out;
    int want = (int)r.range(1, 3);
    for (int k = 0; k < want; ++k) {
        std::vector<int> q = r.pick(good);
        if (r.coin(0.3)) { const std::vector<int>& q2 = r.pick(good); int a = (int)r.range(1, 3), b = (int)r.range(-2, 3); for (size_t i = 0; i < q.size(); ++i) q[i] = a * q[i] + b * q2[i]; }
        bool zero = true; for (int v : q) zero = zero && v == 0;
        if (zero) continue;
        out.push_back(linear_iom(q));
        J a = J::arr(); for (int v : q) a.push(v); desc.push(a);
    }
    return out;
}

}  // namespace vh
