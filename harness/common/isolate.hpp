// Run a crash-prone library call in a forked child so that a fatal signal becomes an observable event of *this* call
// (and does not take the batch down).  The child must not use MPI; it returns a string through a pipe.
#pragma once
#include <functional>
#include <string>
#include <sys/wait.h>
#include <unistd.h>
#include <csignal>
#include <cstring>

namespace vh {

struct IsoResult { bool exited = false; int exit_code = 0; int sig = 0; bool timed_out = false; std::string out; };

inline IsoResult run_isolated(const std::function<std::string()>& fn, int timeout_s = 60) {
    IsoResult r; int fd[2];
    if (pipe(fd) != 0) { r.exited = true; r.exit_code = 111; return r; }
    fflush(stdout); fflush(stderr);
    pid_t pid = fork();
    if (pid == 0) {
        close(fd[0]);
        alarm((unsigned)timeout_s);
        std::string s;
        try { s = fn(); } catch (const std::exception& e) { s = std::string("EXC:") + e.what(); } catch (...) { s = "EXC:unknown"; }
        size_t off = 0; while (off < s.size()) { ssize_t w = write(fd[1], s.data() + off, s.size() - off); if (w <= 0) break; off += (size_t)w; }
        close(fd[1]);
        _exit(0);
    }
    close(fd[1]);
    char buf[4096]; ssize_t n;
    while ((n = read(fd[0], buf, sizeof buf)) > 0) r.out.append(buf, (size_t)n);
    close(fd[0]);
    int st = 0; waitpid(pid, &st, 0);
    if (WIFEXITED(st)) { r.exited = true; r.exit_code = WEXITSTATUS(st); }
    else if (WIFSIGNALED(st)) { r.sig = WTERMSIG(st); r.timed_out = (r.sig == SIGALRM); }
    return r;
}
inline std::string sig_name(int s) {
    switch (s) { case SIGSEGV: return "SIGSEGV"; case SIGABRT: return "SIGABRT"; case SIGFPE: return "SIGFPE"; case SIGBUS: return "SIGBUS"; case SIGALRM: return "SIGALRM"; case SIGILL: return "SIGILL"; default: return "SIG" + std::to_string(s); }
}

}  // namespace vh
