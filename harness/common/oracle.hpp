// O2 (reference full ED + Lehmann), O3 (definition integrals through block-matrix exponentials), O4 (tolerances
// derived from the terms the library is documented to drop, evaluated in the library's own eigenbasis).
#pragma once
#include "common/vh.hpp"
#include "common/jw.hpp"
#include <unsupported/Eigen/MatrixFunctions>

namespace vh {

struct RefED {
    CMat H; RVec E; CMat V; double E0 = 0, hnorm = 0; long dim = 0;
    void solve(const CMat& Hin) {
        H = Hin; dim = H.rows();
        Eigen::SelfAdjointEigenSolver<CMat> es(H);
        E = es.eigenvalues(); V = es.eigenvectors(); E0 = E.minCoeff();
        hnorm = std::max(std::abs(E.minCoeff()), std::abs(E.maxCoeff()));
    }
    double herm_defect() const { return (H - H.adjoint()).cwiseAbs().maxCoeff(); }
    RVec weights(double beta) const {   // log-sum-exp normalised Gibbs weights
        RVec w(dim); double Z = 0;
        for (long n = 0; n < dim; ++n) { w(n) = std::exp(-beta * (E(n) - E0)); Z += w(n); }
        return w / Z;
    }
    CMat rot(const CMat& X) const { return V.adjoint() * X * V; }   // operator in the reference eigenbasis
};

// Lehmann sum: G(z) = sum_{nm} A_nm B_mn (w_n + w_m) / (z - (E_m - E_n)), A = c_i, B = c+_j in an eigenbasis
inline cd lehmann_G(const CMat& A, const CMat& B, const RVec& E, const RVec& w, cd z) {
    cd g = 0; const long d = E.size();
    for (long n = 0; n < d; ++n) for (long m = 0; m < d; ++m) {
        cd ab = A(n, m) * B(m, n);
        if (ab == cd(0, 0)) continue;
        g += ab * (w(n) + w(m)) / (z - (E(m) - E(n)));
    }
    return g;
}
// phi1(x) = (e^x - 1)/x, stable
inline double phi1(double x) { if (std::abs(x) < 1e-5) return 1 + x / 2 + x * x / 6; return std::expm1(x) / x; }

// bosonic: chi(iW) = int_0^beta <A(tau)B> e^{iW tau}; Lehmann with stable handling of (near) degeneracy
//   term(n,m) = A_nm B_mn * int_0^beta w_n e^{tau(E_n-E_m)} e^{iW tau}  ; for W_k bosonic e^{iW beta}=1
//   = A_nm B_mn (w_m - w_n)/(iW - (E_m-E_n))  (non-degenerate),  beta w_n (iW=0, E_n=E_m)
inline cd lehmann_chi(const CMat& A, const CMat& B, const RVec& E, const RVec& w, double beta, double W) {
    cd g = 0; const long d = E.size();
    for (long n = 0; n < d; ++n) for (long m = 0; m < d; ++m) {
        cd ab = A(n, m) * B(m, n);
        if (ab == cd(0, 0)) continue;
        double P = E(m) - E(n);
        if (W == 0.0) g += (std::abs(beta * P) < 1e-3) ? ab * w(n) * beta * phi1(-beta * P) : ab * (w(n) - w(m)) / P;   // w_n (1-e^{-beta P})/P
        else g += ab * (w(m) - w(n)) / (cd(0, W) - P);
    }
    return g;
}
// <A(tau) B> = Tr[e^{-(beta-tau)K} A e^{-tau K} B]/Z in an eigenbasis: sum_nm A_nm B_mn w_n e^{-tau (E_m - E_n)}
inline cd trace_tau(const CMat& A, const CMat& B, const RVec& E, double E0, double beta, double tau) {
    const long d = E.size(); double Z = 0; for (long n = 0; n < d; ++n) Z += std::exp(-beta * (E(n) - E0));
    cd g = 0;
    for (long n = 0; n < d; ++n) for (long m = 0; m < d; ++m) {
        cd ab = A(n, m) * B(m, n);
        if (ab == cd(0, 0)) continue;
        g += ab * std::exp(-(beta - tau) * (E(n) - E0) - tau * (E(m) - E0));
    }
    return g / Z;
}

// ---- O3: Van Loan block exponentials ------------------------------------------------------------
// returns the (0,m) block of exp(beta * T), T upper block-bidiagonal with diagonal blocks Mk = -(H-E0) + i*shift[k] and
// super-diagonal blocks X[k] (k=0..m-1).
inline CMat simplex_integral(const CMat& H, double E0, double beta, const std::vector<cd>& shift, const std::vector<const CMat*>& X) {
    const long d = H.rows(); const long nb = (long)shift.size();
    CMat T = CMat::Zero(d * nb, d * nb);
    CMat K = H - E0 * CMat::Identity(d, d);
    for (long k = 0; k < nb; ++k) {
        T.block(k * d, k * d, d, d) = -K + shift[(size_t)k] * CMat::Identity(d, d);
        if (k + 1 < nb) T.block(k * d, (k + 1) * d, d, d) = *X[(size_t)k];
    }
    CMat arg = beta * T;
    CMat ex = arg.exp();
    return ex.block(0, (nb - 1) * d, d, d);
}
inline double partition_Z(const RVec& E, double E0, double beta) { double Z = 0; for (long n = 0; n < E.size(); ++n) Z += std::exp(-beta * (E(n) - E0)); return Z; }

// G_ij(i w) = - int_0^beta <c_i(tau) c+_j> e^{i w tau}
inline cd expm_G(const RefED& ed, const CMat& ci, const CMat& cdj, double beta, double w) {
    std::vector<cd> sh = {cd(0, 0), cd(0, w)}; std::vector<const CMat*> X = {&ci};
    CMat blk = simplex_integral(ed.H, ed.E0, beta, sh, X);
    return -(blk * cdj).trace() / partition_Z(ed.E, ed.E0, beta);
}
// chi_AB(iW) = int_0^beta <A(tau) B> e^{iW tau}
inline cd expm_chi(const RefED& ed, const CMat& A, const CMat& B, double beta, double W) {
    std::vector<cd> sh = {cd(0, 0), cd(0, W)}; std::vector<const CMat*> X = {&A};
    CMat blk = simplex_integral(ed.H, ed.E0, beta, sh, X);
    return (blk * B).trace() / partition_Z(ed.E, ed.E0, beta);
}
// chi_ijkl(w1,w2;w3) = int int int <T c_i(t1) c_j(t2) c+_k(t3) c+_l(0)> e^{i w1 t1 + i w2 t2 - i w3 t3}
inline cd expm_chi4(const RefED& ed, const CMat& ci, const CMat& cj, const CMat& cdk, const CMat& cdl, double beta, double w1, double w2, double w3) {
    const CMat* O[3] = {&ci, &cj, &cdk};
    const double Om[3] = {w1, w2, -w3};
    static const int perms[6][3] = {{0, 1, 2}, {0, 2, 1}, {1, 0, 2}, {1, 2, 0}, {2, 0, 1}, {2, 1, 0}};
    static const int sgn[6] = {1, -1, -1, 1, 1, -1};
    cd total = 0; double Z = partition_Z(ed.E, ed.E0, beta);
    for (int p = 0; p < 6; ++p) {
        int a = perms[p][0], b = perms[p][1], c = perms[p][2];
        std::vector<cd> sh = {cd(0, 0), cd(0, Om[a]), cd(0, Om[a] + Om[b]), cd(0, Om[a] + Om[b] + Om[c])};
        std::vector<const CMat*> X = {O[a], O[b], O[c]};
        CMat blk = simplex_integral(ed.H, ed.E0, beta, sh, X);
        total += double(sgn[p]) * (blk * cdl).trace() / Z;
    }
    return total;
}

// ---- O4: tolerance for a fermionic one-particle quantity ---------------------------------------
// A, B are c_i and c+_j in the *library's* eigenbasis (E, w the library's eigenvalues / weights).
struct LehmannTerms { std::vector<cd> R; std::vector<double> P; };
inline LehmannTerms lehmann_terms(const CMat& A, const CMat& B, const RVec& E, const RVec& w, bool bosonic = false) {
    LehmannTerms t; const long d = E.size();
    for (long n = 0; n < d; ++n) for (long m = 0; m < d; ++m) {
        cd ab = A(n, m) * B(m, n);
        if (std::abs(ab) < 1e-300) continue;
        t.R.push_back(ab * (bosonic ? (w(n) - w(m)) : (w(n) + w(m)))); t.P.push_back(E(m) - E(n));
    }
    return t;
}
struct TolG {
    // prepared once per (i,j); evaluated per frequency
    std::vector<cd> Rsmall; std::vector<double> Psmall;      // dropped residues (|R| <= thr)
    std::vector<double> Rabs, P, shift;                      // kept terms: |R|, pole, possible pole shift by merging
    std::vector<double> Pgroup; std::vector<long> kgroup;    // groups of like poles with possible cancellation
    double thr = 1e-8;
    double beta = 0;            // set by the caller when known: enables the allowance for the rounding of the statistical weights
    double pole_noise_ = 0;
    void prepare(const LehmannTerms& t, double threshold = 1e-8, double merge = 1e-8) {
        thr = threshold;
        // rounding of the poles themselves: the library and the reference diagonalise independently, each eigenvalue carries an error of a few
        // ulp of the spectral width; at low temperature (small |w_n|) a term R/(z-P) turns that into R*dP/|z-P|^2 with 1/|z-P|^2 ~ (beta/pi)^2
        double pmax = 0; for (double p : t.P) pmax = std::max(pmax, std::abs(p));
        const double pole_noise = 32 * 2.220446049250313e-16 * (1 + pmax); pole_noise_ = pole_noise;
        std::vector<size_t> kept;
        for (size_t k = 0; k < t.R.size(); ++k) {
            if (std::abs(t.R[k]) <= thr * (1 + 1e-6)) { Rsmall.push_back(t.R[k]); Psmall.push_back(t.P[k]); }
            else kept.push_back(k);
        }
        std::sort(kept.begin(), kept.end(), [&](size_t a, size_t b) { return t.P[a] < t.P[b]; });
        // possible pole shift of a kept term: distance to the farthest kept pole reachable within the merge window
        for (size_t q = 0; q < kept.size(); ++q) {
            double p = t.P[kept[q]], sh = 0;
            for (size_t r = q; r-- > 0;) { double d = p - t.P[kept[r]]; if (d < 2 * merge) sh = std::max(sh, d); else break; }
            for (size_t r = q + 1; r < kept.size(); ++r) { double d = t.P[kept[r]] - p; if (d < 2 * merge) sh = std::max(sh, d); else break; }
            Rabs.push_back(std::abs(t.R[kept[q]])); P.push_back(p); shift.push_back(std::min(sh, merge) + pole_noise);
        }
        // groups (chained within 2*merge); allowance only if partial sums can cancel (residues not in a common half-plane)
        size_t q = 0;
        while (q < kept.size()) {
            size_t e = q + 1; while (e < kept.size() && t.P[kept[e]] - t.P[kept[e - 1]] < 2 * merge) ++e;
            if (e - q >= 2) {
                bool cancel = false;
                for (size_t a = q; a < e && !cancel; ++a) for (size_t b = a + 1; b < e; ++b)
                    if ((t.R[kept[a]] * std::conj(t.R[kept[b]])).real() < 0) { cancel = true; break; }
                if (cancel) { Pgroup.push_back(t.P[kept[q]]); kgroup.push_back((long)(e - q) / 2); }
            }
            q = e;
        }
    }
    // imaginary-time value / sum rules: a dropped term loses at most |R|, a merged pole moves a term by at most |R|*shift*beta
    double tau_tol(double beta, cd ref) const {
        double tol = 0;
        for (auto& r : Rsmall) tol += std::abs(r);
        for (size_t k = 0; k < P.size(); ++k) tol += Rabs[k] * shift[k] * beta;
        for (size_t k = 0; k < Pgroup.size(); ++k) tol += double(kgroup[k]) * thr;
        return tol * 1.05 + 1e-11 * (1 + std::abs(ref));
    }
    double dropped_sum() const { double s = 0; for (auto& r : Rsmall) s += std::abs(r); return s; }
    double at(cd z, cd ref) const {
        double tol = 0;
        for (size_t k = 0; k < Rsmall.size(); ++k) tol += std::abs(Rsmall[k]) / std::abs(z - Psmall[k]);
        for (size_t k = 0; k < P.size(); ++k) { double dz = std::abs(z - P[k]); tol += Rabs[k] * shift[k] / (dz * std::max(dz - shift[k], 1e-300)); }
        for (size_t k = 0; k < Pgroup.size(); ++k) tol += double(kgroup[k]) * thr / std::max(std::abs(z - Pgroup[k]) - 2e-8, 1e-300);
        // rounding of the two independently computed sums: every term R/(z-P) carries a few ulp (matrix elements after two rotations), the errors
        // add like a random walk; matters only at low temperature where |z-P| is small for the poles at zero
        double s1 = 0; for (size_t k = 0; k < P.size(); ++k) s1 += Rabs[k] / std::abs(z - P[k]);
        tol += 8 * 2.220446049250313e-16 * s1 * std::sqrt(double(P.size()) + 1);
        // the statistical weights e^{-beta (E-E0)} inherit beta * (rounding of the eigenvalues): at beta ~ 1e3 that is a relative 1e-11 per term,
        // visible where the terms cancel (real part of a particle-hole symmetric G)
        tol += 4 * s1 * beta * pole_noise_;
        return tol * 1.05 + 1e-11 * (1 + std::abs(ref));
    }
};

}  // namespace vh
