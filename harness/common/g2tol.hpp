// Gap-aware tolerance for two-particle quantities (DESIGN 2.5): the library's only documented reductions are pole merging and
// the resonance window, both of width 1e-8; they can change a value only when two DIFFERENT energy differences lie close together.
#pragma once
#include "common/vh.hpp"
#include <algorithm>
#include <map>
#include <vector>

namespace vh {
struct G2Tol {
    bool near = false; double beta = 1; double min_gap = 1e300;
    // Input class of finding #18 (DESIGN 9.3): two different energy differences between the same pair of blocks lie within about one
    // reduction window (1e-10 < |d1-d2| < 3e-8) of each other.  Then TwoParticleGFPart merges resonant terms whose poles agree component-wise
    // within 1e-8 although one of them satisfies the resonance condition |P1+P2| < 1e-8 and the other does not; the merged term is evaluated on
    // one branch only and the other contribution (of order beta*weight) is lost.
    bool straddle = false;
    void prepare(const RVec& E, double beta_, const std::vector<int>* block = nullptr) {
        beta = beta_;
        {
            const long n = E.size(); std::map<std::pair<int, int>, std::vector<double>> groups;
            for (long a = 0; a < n; ++a) for (long b = 0; b < n; ++b) groups[{block ? (*block)[(size_t)a] : 0, block ? (*block)[(size_t)b] : 0}].push_back(E(a) - E(b));
            for (auto& kv : groups) { std::vector<double>& d = kv.second; std::sort(d.begin(), d.end());
                for (size_t k = 1; k < d.size() && !straddle; ++k) { double g = d[k] - d[k - 1]; if (g > 1e-10 && g < 3e-8) straddle = true; } }
        }
        std::vector<double> d; const long n = E.size();
        double scale = 1; for (long a = 0; a < n; ++a) scale = std::max(scale, std::abs(E(a)));
        for (long a = 0; a < n; ++a) for (long b = 0; b < n; ++b) d.push_back(E(a) - E(b));
        std::sort(d.begin(), d.end());
        for (size_t k = 1; k < d.size(); ++k) { double g = d[k] - d[k - 1]; if (g > 1e-11 * scale) { min_gap = std::min(min_gap, g); if (g < 1e-6) near = true; } }
    }
    // S = scale of the quantity on the tested grid
    double tol(double S) const {
        if (!near) return 1e-9 * S;
        return (4e-8 * beta * (1 + beta) + 2e-7 / beta + 1e-9) * S;
    }
};
}  // namespace vh
