// Workload generator: lattices, Hamiltonian terms (through the library's presets and raw terms), parameter classes.
#pragma once
#include "common/vh.hpp"
#include "common/jw.hpp"

namespace vh {

struct SiteSpec { std::string label; int norb, nspin; };

struct RawTerm {                  // value * prod_k (dag[k] ? c+ : c)_{site[k],orb[k],spin[k]}
    std::vector<int> dag, site, orb, spin; cd val;
};

struct Op {
    enum Kind { RAW, LEVEL, HOP4, HOP_ORB, HOP_ALL, COULOMB_S, COULOMB_P4, COULOMB_P3, MAG, SZSZ, SS } kind;
    int a = 0, b = 0;             // site numbers
    int o1 = 0, o2 = 0, s1 = 0, s2 = 0;
    cd v1 = 0, v2 = 0, v3 = 0, v4 = 0;
    RawTerm raw;
};
inline const char* op_name(Op::Kind k) {
    static const char* n[] = {"raw", "addLevel", "addHopping7", "addHopping5", "addHopping4", "addCoulombS", "addCoulombP4", "addCoulombP3", "addMagnetization", "addSzSz", "addSS"};
    return n[k];
}

struct ModelSpec {
    std::vector<SiteSpec> sites;
    std::vector<Op> ops;
    std::string pclass;           // parameter class
    bool spin_major = false;
    double beta = 1.0;
    int nmodes() const { int n = 0; for (auto& s : sites) n += s.norb * s.nspin; return n; }
    bool balanced_spins() const {  // is the library's default S_z candidate constructible? (see C07)
        bool all01 = true; int up = 0, dn = 0;
        for (auto& s : sites) { if (s.nspin > 2) all01 = false; dn += s.norb; if (s.nspin >= 2) up += s.norb; }
        return !all01 || up == dn;
    }
    J describe() const {
        J m = J::obj();
        J ss = J::arr(); for (auto& s : sites) ss.push(J::obj().set("label", s.label).set("orb", s.norb).set("spin", s.nspin));
        m.set("sites", ss).set("pclass", pclass).set("beta", beta).set("spin_major", spin_major).set("nmodes", nmodes());
        J os = J::arr();
        for (auto& o : ops) {
            J j = J::obj().set("op", op_name(o.kind));
            if (o.kind == Op::RAW) {
                std::string t;
                for (size_t k = 0; k < o.raw.dag.size(); ++k) {
                    t += (o.raw.dag[k] ? "c+(" : "c("); t += std::to_string(o.raw.site[k]) + "," + std::to_string(o.raw.orb[k]) + "," + std::to_string(o.raw.spin[k]) + ")";
                }
                j.set("term", t).set("val", o.raw.val);
            } else {
                j.set("a", o.a).set("b", o.b).set("o", J::arr().push(o.o1).push(o.o2)).set("s", J::arr().push(o.s1).push(o.s2));
                j.set("v", J::arr().push(o.v1).push(o.v2).push(o.v3).push(o.v4));
            }
            os.push(j);
        }
        m.set("ops", os);
        return m;
    }
    std::string canon() const { return describe().str(); }
};

// ---- apply to a library lattice -------------------------------------------------------------
inline Pomerol::Lattice::Term* make_lib_term(const ModelSpec& m, const RawTerm& r) {
    unsigned n = (unsigned)r.dag.size();
    Pomerol::Lattice::Term* T = new Pomerol::Lattice::Term(n);
    for (unsigned k = 0; k < n; ++k) {
        T->OperatorSequence[k] = r.dag[k] != 0;
        T->SiteLabels[k] = m.sites[(size_t)r.site[k]].label;
        T->Orbitals[k] = (unsigned short)r.orb[k];
        T->Spins[k] = (unsigned short)r.spin[k];
    }
    T->Value = to_melem(r.val);
    return T;
}

inline void apply_op(const ModelSpec& m, const Op& o, Pomerol::Lattice& L) {
    using Pomerol::LatticePresets;
    const std::string& la = m.sites[(size_t)o.a].label;
    const std::string& lb = m.sites[(size_t)o.b].label;
    switch (o.kind) {
    case Op::RAW: { Pomerol::Lattice::Term* T = make_lib_term(m, o.raw); L.addTerm(T); delete T; break; }
    case Op::LEVEL: LatticePresets::addLevel(&L, la, to_melem(o.v1)); break;
    case Op::HOP4: LatticePresets::addHopping(&L, la, lb, to_melem(o.v1), (unsigned short)o.o1, (unsigned short)o.o2, (unsigned short)o.s1, (unsigned short)o.s2); break;
    case Op::HOP_ORB: LatticePresets::addHopping(&L, la, lb, to_melem(o.v1), (unsigned short)o.o1, (unsigned short)o.o2); break;
    case Op::HOP_ALL: LatticePresets::addHopping(&L, la, lb, to_melem(o.v1)); break;
    case Op::COULOMB_S: LatticePresets::addCoulombS(&L, la, to_melem(o.v1), to_melem(o.v2)); break;
    case Op::COULOMB_P4: LatticePresets::addCoulombP(&L, la, to_melem(o.v1), to_melem(o.v2), to_melem(o.v3), to_melem(o.v4)); break;
    case Op::COULOMB_P3: LatticePresets::addCoulombP(&L, la, to_melem(o.v1), to_melem(o.v3), to_melem(o.v4)); break;
    case Op::MAG: LatticePresets::addMagnetization(&L, la, to_melem(o.v1)); break;
    case Op::SZSZ: LatticePresets::addSzSz(&L, la, lb, to_melem(o.v1)); break;
    case Op::SS: LatticePresets::addSS(&L, la, lb, to_melem(o.v1)); break;
    }
}
inline void apply_model(const ModelSpec& m, Pomerol::Lattice& L) {
    for (auto& s : m.sites) L.addSite(new Pomerol::Lattice::Site(s.label, (unsigned short)s.norb, (unsigned short)s.nspin));
    for (auto& o : m.ops) apply_op(m, o, L);
}

// ---- generation -----------------------------------------------------------------------------
struct GenOpts {
    int min_modes = 1, max_modes = 6;
    int max_sites = 4;
    bool hetero = true;            // sites with different orbital / spin counts
    bool allow_unbalanced = false; // lattices on which the default S_z candidate cannot be built (C07 finding #6)
    bool allow_raw = true;
    bool allow_six = true;
    bool allow_nbreak = true;      // pair terms c+c+ + cc
    bool allow_szbreak = true;     // spin-mixing hopping
    bool allow_repeated = false;   // raw terms with a repeated factor (vanish by Pauli; C04 finding #7)
    bool allow_presets = true;
    bool quadratic_only = false;
    bool allow_spin_major = false;
    double beta_lo = 0.3, beta_hi = 30.0;
    std::vector<std::string> pclasses = {"generic", "integers", "equal", "atomic", "negU", "ph", "free", "neardeg", "zero"};
};

inline std::vector<std::string> label_pool() {
    return {"A", "B", "a", "Z9", "0", "site_with_a_rather_long_label_0001", "site_with_a_rather_long_label_0002", "x y", "b", "AA", "zz top", "C"};
}

struct ValueGen {
    std::string pclass; Rng* r; double eq;
    double real_amp() {
        if (pclass == "integers") { static const double v[] = {-2, -1, 1, 2}; return v[r->range(0, 3)]; }
        if (pclass == "equal") return eq;
        if (pclass == "zero") return r->coin(0.5) ? 0.0 : r->sym(2.0);
        double x = r->sym(2.0); if (std::abs(x) < 0.05) x = 0.05 * (x < 0 ? -1 : 1); return x;
    }
    cd amp() {
        double re = real_amp();
        if (kComplexBuild && r->coin(0.7)) { double ph = r->uni(0, 2 * M_PI); return re * cd(std::cos(ph), std::sin(ph)); }
        return cd(re, 0);
    }
    double level() {
        if (pclass == "neardeg") { static const double sp[] = {1e-9, 3e-9, 1e-8, 2e-8, 1e-7, 1e-6, 1e-5}; return 0.5 + sp[r->range(0, 6)] * (double)r->range(-2, 2); }
        return real_amp();
    }
    double U() { if (pclass == "negU") return -std::abs(real_amp()); if (pclass == "free") return 0; return std::abs(real_amp()) + (pclass == "integers" ? 0 : 0.3); }
};

// Fixed input of finding #18 (DESIGN 9.3): two Hubbard sites (or, quadratic: two levels per spin) with hopping and Zeeman fields of 1e-8 and 4e-9,
// i.e. level splittings of about the width of the library's reduction windows.
inline ModelSpec finding18_model(bool quadratic) {
    ModelSpec m; m.beta = 4.0; m.pclass = "finding18";
    for (int s = 0; s < 2; ++s) { SiteSpec S; S.label = s ? "B" : "A"; S.norb = 1; S.nspin = 2; m.sites.push_back(S); }
    for (int s = 0; s < 2; ++s) {
        Op o; o.kind = Op::COULOMB_S; o.a = o.b = s; o.v1 = quadratic ? 0.0 : (s ? 1.5 : 1.7); o.v2 = s ? -0.4 : -0.5; m.ops.push_back(o);
        Op mg; mg.kind = Op::MAG; mg.a = mg.b = s; mg.v1 = s ? 4e-9 : 1e-8; m.ops.push_back(mg);
    }
    Op h; h.kind = Op::HOP_ALL; h.a = 1; h.b = 0; h.v1 = 0.3; m.ops.push_back(h);
    return m;
}

inline ModelSpec gen_model(Rng& r, const GenOpts& g) {
    ModelSpec m;
    for (int attempt = 0; attempt < 200; ++attempt) {
        m = ModelSpec();
        m.pclass = r.pick(g.pclasses);
        int target = (int)r.range(g.min_modes, g.max_modes);
        std::vector<std::string> pool = label_pool();
        int nsites = 0, modes = 0;
        bool hetero = g.hetero && r.coin(0.45);
        while (nsites < g.max_sites && modes < target) {
            SiteSpec s;
            size_t li = (size_t)r.range(0, (long)pool.size() - 1); s.label = pool[li]; pool.erase(pool.begin() + (long)li);
            if (hetero) { s.norb = (int)r.range(1, 3); s.nspin = (int)r.range(1, 3); }
            else { s.norb = r.coin(0.8) ? 1 : 2; s.nspin = 2; }
            if (modes + s.norb * s.nspin > g.max_modes) { if (modes + 2 <= g.max_modes) { s.norb = 1; s.nspin = 2; } else if (modes + 1 <= g.max_modes && hetero) { s.norb = 1; s.nspin = 1; } else break; }
            m.sites.push_back(s); modes += s.norb * s.nspin; ++nsites;
        }
        if (m.sites.empty()) continue;
        if (modes < g.min_modes) continue;
        if (!g.allow_unbalanced && !m.balanced_spins()) continue;
        break;
    }
    m.spin_major = g.allow_spin_major && r.coin(0.3);
    m.beta = r.logu(g.beta_lo, g.beta_hi);
    ValueGen vg{m.pclass, &r, 0.0}; vg.eq = (r.coin() ? 1.0 : -0.5);
    const int ns = (int)m.sites.size();
    auto rnd_site = [&]() { return (int)r.range(0, ns - 1); };
    auto rnd_mode = [&](int& s, int& o, int& z) { s = rnd_site(); o = (int)r.range(0, m.sites[(size_t)s].norb - 1); z = (int)r.range(0, m.sites[(size_t)s].nspin - 1); };
    bool free_model = g.quadratic_only || m.pclass == "free";
    bool atomic = (m.pclass == "atomic");

    // --- on-site parts
    for (int s = 0; s < ns; ++s) {
        const SiteSpec& S = m.sites[(size_t)s];
        Op o; o.a = o.b = s;
        double U = vg.U();
        if (m.pclass == "ph" && !free_model) { o.kind = Op::COULOMB_S; o.v1 = U; o.v2 = -U / 2 * (S.nspin - 1); m.ops.push_back(o); continue; }
        int choice = (int)r.range(0, 5);
        if (!g.allow_presets) choice = 5;
        if (free_model) { o.kind = Op::LEVEL; o.v1 = vg.level(); if (r.coin(0.8)) m.ops.push_back(o); continue; }
        if (choice == 0 || choice == 1) { o.kind = Op::COULOMB_S; o.v1 = U; o.v2 = vg.level(); m.ops.push_back(o); }
        else if (choice == 2 && S.norb > 1 && S.nspin > 1) {
            bool four = r.coin();
            o.kind = four ? Op::COULOMB_P4 : Op::COULOMB_P3; o.v1 = U; o.v3 = 0.25 * U * r.uni(0, 1) * (r.coin(0.8) ? 1 : 0); o.v2 = four ? cd(vg.real_amp(), 0) : o.v1 - 2.0 * o.v3; o.v4 = vg.level();
            m.ops.push_back(o);
        } else if (choice == 3) { o.kind = Op::LEVEL; o.v1 = vg.level(); m.ops.push_back(o);
            if (S.nspin >= 2) {   // density-density by raw terms
                Op d; d.kind = Op::RAW; d.a = d.b = s; RawTerm t; int oo = (int)r.range(0, S.norb - 1);
                t.dag = {1, 0, 1, 0}; t.site = {s, s, s, s}; t.orb = {oo, oo, oo, oo}; t.spin = {0, 0, 1, 1}; t.val = U; d.raw = t; if (g.allow_raw) m.ops.push_back(d);
            }
        } else { o.kind = Op::COULOMB_S; o.v1 = U; o.v2 = vg.level(); m.ops.push_back(o); }
        if (S.nspin == 2 && r.coin(m.pclass == "neardeg" ? 0.6 : 0.25)) { Op mg; mg.kind = Op::MAG; mg.a = mg.b = s; mg.v1 = vg.level() * 0.3;
            if (m.pclass == "neardeg") { static const double sp[] = {5e-10, 2e-9, 5e-9, 1e-8, 2e-8, 1e-7, 1e-6}; mg.v1 = sp[r.range(0, 6)]; }   // tiny Zeeman splitting straddling the 1e-8 windows
            if (g.allow_presets) m.ops.push_back(mg); }
    }
    // --- hopping
    if (!atomic) {
        int nh = (int)r.range(ns > 1 ? 1 : 0, ns + 1);
        for (int h = 0; h < nh; ++h) {
            Op o; int a = rnd_site(), b = rnd_site();
            const SiteSpec& A = m.sites[(size_t)a]; const SiteSpec& B = m.sites[(size_t)b];
            o.a = a; o.b = b; o.v1 = vg.amp();
            int form = (int)r.range(0, 3);
            if (form == 0 && a != b && A.norb == B.norb && A.nspin == B.nspin && g.allow_presets) { o.kind = Op::HOP_ALL; }
            else if (form == 1 && A.nspin == B.nspin && !(a == b && A.norb == 1) && g.allow_presets) {
                o.kind = Op::HOP_ORB; o.o1 = (int)r.range(0, A.norb - 1); o.o2 = (int)r.range(0, B.norb - 1);
                if (a == b && o.o1 == o.o2) o.o2 = (o.o1 + 1) % A.norb;
            } else {
                o.kind = Op::HOP4; o.o1 = (int)r.range(0, A.norb - 1); o.o2 = (int)r.range(0, B.norb - 1);
                o.s1 = (int)r.range(0, A.nspin - 1);
                bool mix = g.allow_szbreak && r.coin(0.2);
                o.s2 = mix ? (int)r.range(0, B.nspin - 1) : std::min(o.s1, B.nspin - 1);
                if (a == b && o.o1 == o.o2 && o.s1 == o.s2) { if (A.nspin > 1 && g.allow_szbreak) o.s2 = (o.s1 + 1) % A.nspin; else if (A.norb > 1) o.o2 = (o.o1 + 1) % A.norb; else continue; }
            }
            m.ops.push_back(o);
        }
    }
    // --- exchange couplings
    if (!free_model && g.allow_presets && r.coin(0.3)) {
        int a = rnd_site(), b = rnd_site();
        const SiteSpec& A = m.sites[(size_t)a]; const SiteSpec& B = m.sites[(size_t)b];
        if (A.nspin == 2 && B.nspin == 2 && A.norb == B.norb) { Op o; o.kind = r.coin() ? Op::SZSZ : Op::SS; o.a = a; o.b = b; o.v1 = vg.real_amp(); m.ops.push_back(o); }
    }
    // --- raw user terms (with their Hermitian conjugates)
    if (g.allow_raw && !atomic && r.coin(free_model ? 0.3 : 0.5)) {
        int nt = (int)r.range(1, 2);
        for (int t = 0; t < nt; ++t) {
            bool nbreak = g.allow_nbreak && !free_model && m.nmodes() >= 2 && r.coin(0.15);
            int len = nbreak ? 2 : (free_model ? 2 : (r.coin(0.25) ? 2 : (g.allow_six && r.coin(0.2) && m.nmodes() >= 3 ? 6 : 4)));
            RawTerm rt; cd val = vg.amp();
            std::set<std::pair<int, std::vector<int>>> used;
            bool ok = true;
            for (int k = 0; k < len; ++k) {
                int s, o, z; int dag = nbreak ? 1 : (k < len / 2 ? 1 : 0);
                int tries = 0;
                do { rnd_mode(s, o, z); ++tries; } while (!g.allow_repeated && used.count({dag, {s, o, z}}) && tries < 50);
                if (tries >= 50) { ok = false; break; }
                used.insert({dag, {s, o, z}});
                rt.dag.push_back(dag); rt.site.push_back(s); rt.orb.push_back(o); rt.spin.push_back(z);
            }
            if (!ok) continue;
            if (!g.allow_szbreak && !nbreak) {   // keep S_z: annihilated spins = created spins as multisets -> copy spins
                int h = (int)rt.dag.size() / 2; for (int k = 0; k < h; ++k) rt.spin[(size_t)(h + k)] = std::min(rt.spin[(size_t)k], m.sites[(size_t)rt.site[(size_t)(h + k)]].nspin - 1);
            }
            if (!g.allow_repeated) {
                std::set<std::pair<int, std::vector<int>>> seen; bool dup = false;
                for (size_t k = 0; k < rt.dag.size(); ++k) dup = dup || !seen.insert({rt.dag[k], {rt.site[k], rt.orb[k], rt.spin[k]}}).second;
                if (dup) continue;
            }
            rt.val = val;
            RawTerm hc; size_t L = rt.dag.size();
            for (size_t k = 0; k < L; ++k) { size_t q = L - 1 - k; hc.dag.push_back(!rt.dag[q]); hc.site.push_back(rt.site[q]); hc.orb.push_back(rt.orb[q]); hc.spin.push_back(rt.spin[q]); }
            hc.val = std::conj(val);
            Op a; a.kind = Op::RAW; a.raw = rt; Op b; b.kind = Op::RAW; b.raw = hc;
            m.ops.push_back(a); m.ops.push_back(b);
        }
    }
    return m;
}

}  // namespace vh
