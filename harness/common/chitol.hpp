// Tolerance for the bosonic susceptibility, evaluated in the library's eigenbasis (shared by the C14 and C08 drivers).
#pragma once
#include "common/vh.hpp"
#include <algorithm>

namespace vh {
// Tolerance in the library's eigenbasis.  Terms: X = A_nm B_mn, weights w_n (outer) and w_m (inner), pole P = E_m - E_n.
struct ChiTerm { cd X; double wn, wm, P; };
struct TolChi {
    std::vector<ChiTerm> zero, dropped, kept; std::vector<double> shift; std::vector<double> Pgroup; std::vector<long> kgroup;
    double beta = 1;
    void prepare(const CMat& A, const CMat& B, const RVec& E, const RVec& w, double beta_) {
        beta = beta_; const long d = E.size();
        for (long n = 0; n < d; ++n) for (long m = 0; m < d; ++m) {
            cd x = A(n, m) * B(m, n); if (std::abs(x) < 1e-300) continue;
            ChiTerm t{x, w(n), w(m), E(m) - E(n)};
            if (std::abs(t.P) < 1e-8 * (1 + 1e-6)) zero.push_back(t);
            if (std::abs(t.P) >= 1e-8 * (1 - 1e-6)) { if (std::abs(x * (t.wn - t.wm)) <= 1e-8 * (1 + 1e-6)) dropped.push_back(t); kept.push_back(t); }   // `kept`: every term outside the zero window (merging / rounding allowances apply whether or not the library keeps it)
        }
        std::sort(kept.begin(), kept.end(), [](const ChiTerm& a, const ChiTerm& b) { return a.P < b.P; });
        const double merge = 1e-8;
        for (size_t q = 0; q < kept.size(); ++q) { double p = kept[q].P, sh = 0;
            for (size_t r = q; r-- > 0;) { double dd = p - kept[r].P; if (dd < 2 * merge) sh = std::max(sh, dd); else break; }
            for (size_t r = q + 1; r < kept.size(); ++r) { double dd = kept[r].P - p; if (dd < 2 * merge) sh = std::max(sh, dd); else break; }
            shift.push_back(std::min(sh, merge) + 4e-16 * (1 + std::abs(p))); }
        size_t q = 0;
        while (q < kept.size()) { size_t e = q + 1; while (e < kept.size() && kept[e].P - kept[e - 1].P < 2 * merge) ++e;
            if (e - q >= 2) { bool cancel = false;
                for (size_t a = q; a < e && !cancel; ++a) for (size_t b = a + 1; b < e; ++b) { cd ra = kept[a].X * (kept[a].wn - kept[a].wm), rb = kept[b].X * (kept[b].wn - kept[b].wm); if ((ra * std::conj(rb)).real() < 0) { cancel = true; break; } }
                if (cancel) { Pgroup.push_back(kept[q].P); kgroup.push_back((long)(e - q) / 2); } }
            q = e; }
    }
    // C14 states no allowance for dropped terms.  Tier 1 (`strict`): the literal effect of the documented reductions (poles within 1e-8 of
    // zero treated as degenerate, like poles merged, residues <= 1e-8 dropped) is granted, but a DROPPED term only if it is negligible by
    // matrix element and weight, |A_nm B_mn| max(w_n,w_m) <= 1e-6; a term that is dropped only because w_n - w_m nearly cancels although it
    // carries weight is not covered.  Tier 2 (`literal`): every dropped residue is granted |R|/|z-P|.  A deviation above tier 1 but within
    // tier 2 is reported under the specific key "significant-term-dropped"; above tier 2 it is something else.
    static constexpr double kNegligible = 1e-6;
    double at_freq(double W, cd ref, bool literal = false) const {
        double t = 0;
        for (auto& z : zero) {   // treated as exactly degenerate: beta*w_n at W=0 (exact: w_n beta phi1(-beta P)); ignored at W != 0 (exact: X (w_m-w_n)/(iW-P))
            if (W == 0) t += std::abs(z.X) * std::max(z.wn, z.wm) * beta * beta * 1e-8;
            else t += std::abs(z.X) * std::max(z.wn, z.wm) * beta * 1e-8 / std::abs(W);
        }
        for (auto& d : dropped) { double R = std::abs(d.X) * std::abs(d.wn - d.wm); if (literal || W != 0 || std::abs(d.X) * std::max(d.wn, d.wm) <= kNegligible) t += R / std::abs(cd(-d.P, W)); }   // at W != 0 the loss is <= 1e-8*beta/2pi: C01's rule
        for (size_t k = 0; k < kept.size(); ++k) { double R = std::abs(kept[k].X) * std::abs(kept[k].wn - kept[k].wm); double dz = std::abs(cd(-kept[k].P, W));
            t += R * shift[k] / (dz * std::max(dz - shift[k], 1e-300)) + 2e-15 * std::abs(kept[k].X) * std::max(kept[k].wn, kept[k].wm) / dz; }   // merging + rounding of w_n - w_m
        for (size_t k = 0; k < Pgroup.size(); ++k) t += double(kgroup[k]) * 1e-8 / std::max(std::abs(cd(-Pgroup[k], W)) - 2e-8, 1e-300);
        return t * 1.05 + 1e-11 * (1 + std::abs(ref)) * (1 + beta);
    }
    std::string breakdown(double W) const {
        double tz = 0, td = 0, tdact = 0, tk = 0, tg = 0;
        for (auto& z : zero) tz += (W == 0) ? std::abs(z.X) * z.wn * beta * beta * std::abs(z.P) : std::abs(z.X) * std::abs(z.wm - z.wn) / std::abs(cd(-z.P, W));
        for (auto& d : dropped) { double R = std::abs(d.X) * std::abs(d.wn - d.wm); tdact += R / std::abs(cd(-d.P, W)); td += R / std::abs(cd(-d.P, W)); }
        for (size_t k = 0; k < kept.size(); ++k) { double R = std::abs(kept[k].X) * std::abs(kept[k].wn - kept[k].wm); double dz = std::abs(cd(-kept[k].P, W)); tk += R * shift[k] / (dz * std::max(dz - shift[k], 1e-300)); }
        for (size_t k = 0; k < Pgroup.size(); ++k) tg += double(kgroup[k]) * 1e-8 / std::max(std::abs(cd(-Pgroup[k], W)) - 2e-8, 1e-300);
        return " [tolerance parts: zero-pole-window " + fmt(tz) + " (" + std::to_string(zero.size()) + " terms), dropped residues " + fmt(td) + " (actual loss bound " + fmt(tdact) + ", " + std::to_string(dropped.size()) + " terms), pole merging " + fmt(tk) + " (" + std::to_string(kept.size()) + " kept), like-term cancellation " + fmt(tg) + "]";
    }
    double at_tau(double tau, cd ref, bool literal = false) const {
        double t = 0;
        for (auto& z : zero) t += std::abs(z.X) * std::max(z.wn, z.wm) * beta * 1e-8 * 1.01;          // exact w_n e^{-tau P} vs w_n, |P| < 1e-8
        for (auto& d : dropped) { double xw = std::abs(d.X) * std::max(d.wn, d.wm); if (literal || xw <= kNegligible) t += xw; }
        for (size_t k = 0; k < kept.size(); ++k) { double xw = std::abs(kept[k].X) * std::max(kept[k].wn, kept[k].wm);
            // a merged pole moves the term R e^{-tau P}/(1-e^{-beta P}) (R fixed): |d/dP| <= x w (tau + beta e^{-beta P}/(1-e^{-beta P})) <= x w (beta + 1/|P|)
            t += xw * shift[k] * (beta + 1.0 / std::max(std::abs(kept[k].P) - shift[k], 1e-300)) * 1.01 + 2e-15 * xw / std::min(1.0, beta * std::abs(kept[k].P)); }
        for (size_t k = 0; k < Pgroup.size(); ++k) t += double(kgroup[k]) * 1e-8 * 1.6 * std::max(1.0, 1.0 / (beta * std::max(std::abs(Pgroup[k]) - 2e-8, 1e-300)));
        return t * 1.05 + 1e-11 * (1 + std::abs(ref));
    }
    long significant_dropped() const { long n = 0; for (auto& d : dropped) if (std::abs(d.X) * std::max(d.wn, d.wm) > kNegligible) ++n; return n; }
};
}  // namespace vh
