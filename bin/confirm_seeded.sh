#!/bin/bash
# confirm_seeded.sh <id> <deliver dir> [np]: confirm a seeded break in a scratch worktree: demo passes without the patch, ctest passes and demo fails with it.
set -u
ID=$1; DEL=$2; NP=${3:-0}
export OMPI_ALLOW_RUN_AS_ROOT=1 OMPI_ALLOW_RUN_AS_ROOT_CONFIRM=1 OMPI_MCA_rmaps_base_oversubscribe=1
WT=/tmp/conf_$ID
git -C /repo worktree remove --force $WT >/dev/null 2>&1
git -C /repo worktree add --detach $WT HEAD >/dev/null 2>&1 || { echo "worktree failed"; exit 2; }
cd $WT
build() { cmake -G Ninja -S . -B _build -DCMAKE_BUILD_TYPE=RelWithDebInfo >/dev/null 2>&1 && ninja -C _build >/dev/null 2>&1; }
demo() {
  if [ -f $DEL/demo.cpp ]; then
    g++ -std=c++11 -O1 -fopenmp $DEL/demo.cpp -I include -I include/pomerol -I _build/include -I /usr/include/eigen3 $(mpicxx --showme:compile) -L _build -lpomerol -Wl,-rpath,$WT/_build -lboost_mpi -lboost_serialization $(mpicxx --showme:link) -o demo 2>/tmp/conf_$ID.cc.log || { echo "demo compile failed"; tail -5 /tmp/conf_$ID.cc.log; return 99; }
    if [ "$NP" != "0" ]; then timeout 300 mpiexec --oversubscribe -np $NP ./demo >/tmp/conf_$ID.demo.log 2>&1; else timeout 300 ./demo >/tmp/conf_$ID.demo.log 2>&1; fi
    return $?
  else
    (cd $WT && timeout 600 bash $DEL/demo.sh >/tmp/conf_$ID.demo.log 2>&1); return $?
  fi
}
build || { echo "baseline build failed"; exit 2; }
demo; R0=$?
git apply $DEL/patch.diff || { echo "patch does not apply"; exit 2; }
build || { echo "build with patch failed"; exit 2; }
ctest --test-dir _build -j8 --timeout 900 >/tmp/conf_$ID.ctest.log 2>&1; RC=$?
PASSED=$(grep -c "Passed" /tmp/conf_$ID.ctest.log)
demo; R1=$?
echo "$ID: demo without patch rc=$R0 ; with patch: ctest rc=$RC ($PASSED passed), demo rc=$R1 ; last demo lines: $(tail -2 /tmp/conf_$ID.demo.log | tr '\n' ' ' | cut -c1-200)"
cd /; git -C /repo worktree remove --force $WT >/dev/null 2>&1
[ $R0 -eq 0 ] && [ $RC -eq 0 ] && [ $R1 -ne 0 ] && exit 0 || exit 1
