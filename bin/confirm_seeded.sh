#!/bin/bash
# confirm_seeded.sh <id> <deliver dir> [np] [cplx]: confirm a seeded break in a scratch worktree: demo passes without the patch, ctest passes and demo fails with it.
# np>0: run the demo under mpiexec -np <np>; cplx=1: link the demo against a -DPOMEROL_COMPLEX_MATRIX_ELEMENTS=ON build (ctest is run in both builds).
set -u
ID=$1; DEL=$2; NP=${3:-0}; CPLX=${4:-0}
export OMPI_ALLOW_RUN_AS_ROOT=1 OMPI_ALLOW_RUN_AS_ROOT_CONFIRM=1 OMPI_MCA_rmaps_base_oversubscribe=1
WT=/tmp/conf_$ID
git -C /repo worktree remove --force $WT >/dev/null 2>&1
git -C /repo worktree add --detach $WT HEAD >/dev/null 2>&1 || { echo "worktree failed"; exit 2; }
cd $WT
DB=_build; [ "$CPLX" = "1" ] && DB=_build_cplx
build() { cmake -G Ninja -S . -B _build -DCMAKE_BUILD_TYPE=RelWithDebInfo >/dev/null 2>&1 && ninja -j8 -C _build >/dev/null 2>&1 || return 1
  if [ "$CPLX" = "1" ]; then cmake -G Ninja -S . -B _build_cplx -DCMAKE_BUILD_TYPE=RelWithDebInfo -DPOMEROL_COMPLEX_MATRIX_ELEMENTS=ON >/dev/null 2>&1 && ninja -j8 -C _build_cplx >/dev/null 2>&1 || return 1; fi; }
demo() {
    cp $DEL/*.h . 2>/dev/null
    g++ -std=c++11 -O1 -g -fopenmp $DEL/demo.cpp -I $DEL -I include -I include/pomerol -I $DB/include -I /usr/include/eigen3 $(mpicxx --showme:compile) -L $DB -lpomerol -Wl,-rpath,$WT/$DB -lboost_mpi -lboost_serialization $(mpicxx --showme:link) -lpthread -rdynamic -o demo 2>/tmp/conf_$ID.cc.log || { echo "demo compile failed"; tail -5 /tmp/conf_$ID.cc.log; return 99; }
    if [ "$NP" != "0" ]; then timeout 300 mpiexec --oversubscribe -np $NP ./demo >/tmp/conf_$ID.demo.log 2>&1; else timeout 300 ./demo >/tmp/conf_$ID.demo.log 2>&1; fi
    return $?
}
build || { echo "baseline build failed"; exit 2; }
demo; R0=$?
git apply $DEL/patch.diff || { echo "patch does not apply"; exit 2; }
build || { echo "build with patch failed"; exit 2; }
ctest --test-dir _build -j8 --timeout 900 >/tmp/conf_$ID.ctest.log 2>&1; RC=$?
PASSED=$(grep -c "Passed" /tmp/conf_$ID.ctest.log)
if [ "$CPLX" = "1" ]; then ctest --test-dir _build_cplx -j8 --timeout 900 >/tmp/conf_$ID.ctestc.log 2>&1; RCC=$?; PASSED="$PASSED real / $(grep -c Passed /tmp/conf_$ID.ctestc.log) complex"; RC=$((RC+RCC)); fi
demo; R1=$?
echo "$ID: demo without patch rc=$R0 ; with patch: ctest rc=$RC ($PASSED passed), demo rc=$R1 ; last demo lines: $(grep -v '^-*$' /tmp/conf_$ID.demo.log | tail -2 | tr '\n' ' ' | cut -c1-220)"
cd /; git -C /repo worktree remove --force $WT >/dev/null 2>&1
rm -f /tmp/conf_$ID.*.log
[ $R0 -eq 0 ] && [ $RC -eq 0 ] && [ $R1 -ne 0 ] && exit 0 || exit 1
