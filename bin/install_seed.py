#!/usr/bin/env python3
"""install_seed.py <seed id> <property> <deliver dir> "<what it needs to manifest>" "<what was run to confirm>" """
import json, os, shutil, sys
sid, prop, deliver, needs, ran = sys.argv[1:6]
d = os.path.join("/verif/seeded", sid)
os.makedirs(d, exist_ok=True)
for f in os.listdir(deliver):
    fp = os.path.join(deliver, f)
    if os.path.isfile(fp) and os.path.getsize(fp) < 400000 and not os.access(fp, os.X_OK) or f == "demo.sh":
        shutil.copy(os.path.join(deliver, f), os.path.join(d, f))
meta = dict(id=sid, property=prop, source="fresh sub-agent given only the property text and a scratch worktree of /repo (HEAD at the time: all fix: commits + hook commit)",
            needs_to_manifest=needs, confirmed_by_me=ran)
json.dump(meta, open(os.path.join(d, "meta.json"), "w"), indent=1)
print("installed", d, sorted(os.listdir(d)))
