"""Parse ASan / UBSan / Eigen-precondition / memcheck output and key each report by (tool, kind, innermost library frame)."""
import re, sys, json

FRAME = re.compile(r"^\s*#(\d+) 0x[0-9a-f]+ (?:in )?(.+?)(?: (/[^\s:]+)(?::(\d+))?(?::\d+)?)?\s*$")
ASAN_HEAD = re.compile(r"==\d+==\s*ERROR: (AddressSanitizer|LeakSanitizer): ([A-Za-z0-9_\-]+)")
UBSAN_HEAD = re.compile(r"^(\S+?):(\d+):(\d+): runtime error: (.*)$")
EIGEN_HEAD = re.compile(r"VERIF-EIGEN-ASSERT (\S+?):(\d+) (.*)")
MARK = re.compile(r"^VH-BEGIN (\d+)")
TSAN_HEAD = re.compile(r"WARNING: ThreadSanitizer: ([a-z\- ]+?)(?: \(pid=\d+\))?\s*$")
TSAN_FRAME = re.compile(r"^\s*#(\d+) (.+?) (/[^\s:]+|<null>)(?::\d+)*(?: \(.*\))?\s*$")
VG_HEAD = re.compile(r"^==\d+== (Invalid (?:read|write) of size \d+|Conditional jump or move depends on uninitialised value\(s\)|Use of uninitialised value of size \d+|Invalid free.*|Mismatched free.*|Syscall param .* uninitialised.*|Source and destination overlap.*)")
VG_FRAME = re.compile(r"^==\d+==\s+(?:at|by) 0x[0-9A-F]+: (.+?) \((?:in )?([^)]*)\)")


def strip_fn(fn):
    fn = re.sub(r"\(.*$", "", fn.strip())
    # drop template arguments (nested)
    prev = None
    while prev != fn:
        prev = fn
        fn = re.sub(r"<[^<>]*>", "<>", fn)
    fn = re.sub(r"(<>)+", "<>", fn)
    return fn.strip()


def ubsan_kind(msg):
    msg = msg.strip()
    m = [("reference binding to null pointer", "null-reference"), ("null pointer", "null-pointer"), ("signed integer overflow", "signed-overflow"),
         ("out of bounds", "index-out-of-bounds"), ("misaligned", "misaligned"), ("shift", "shift"), ("division by zero", "div-by-zero"),
         ("not a valid value", "invalid-value"), ("outside the range of representable", "float-cast-overflow"), ("member call on", "bad-member-call"),
         ("downcast", "bad-downcast"), ("load of", "invalid-load"), ("applying non-zero offset", "pointer-offset"), ("pointer index expression", "pointer-overflow")]
    for k, v in m:
        if k in msg:
            return v
    return re.sub(r"[^a-z]+", "-", msg.lower())[:40]


def classify(frames):
    """frames: list of (function, file). Returns (owner, site): owner in library / harness / external."""
    for fn, fl in frames:
        sfn = strip_fn(fn)
        # the function itself must live in the library's namespaces (template arguments naming library types do not count)
        if re.match(r"^(?:[\w:<>\*&\s]*\s)?(Pomerol|pMPI)::", sfn):
            return "library", sfn
        if fl and "/repo/" in fl or (fl and re.search(r"/(src|include)/(pomerol|mpi_dispatcher)/", fl)):
            return "library", strip_fn(fn)
        if re.search(r"\bvh::|_run\(vh::Ctx&\)|\bmain\b", fn) or (fl and "/verif/harness/" in fl):
            return "harness", strip_fn(fn)
    return "external", strip_fn(frames[0][0]) if frames else "?"


def parse_text(txt):
    reports = []
    case = None
    lines = txt.splitlines()
    i = 0
    while i < len(lines):
        l = lines[i]
        m = MARK.match(l)
        if m:
            case = int(m.group(1)); i += 1; continue
        head = None
        m = ASAN_HEAD.search(l)
        mt = TSAN_HEAD.search(l)
        if m:
            head = ("asan", m.group(2))
        elif mt:
            head = ("tsan", mt.group(1).strip().replace(" ", "-"))
        else:
            m = UBSAN_HEAD.match(l)
            if m:
                head = ("ubsan", ubsan_kind(m.group(4)), m.group(1), m.group(4))
            else:
                m = EIGEN_HEAD.search(l)
                if m:
                    reports.append(dict(tool="eigen-assert", kind="precondition", owner="library", site=m.group(1).split("/")[-1] + ":" + m.group(3)[:60], case=case, text=l))
                    i += 1; continue
                m = VG_HEAD.match(l)
                if m:
                    head = ("memcheck", re.sub(r"\s+", "-", re.sub(r" of size \d+", "", m.group(1)).lower())[:50])
        if not head:
            i += 1; continue
        frames, block = [], [l]
        alloc_frames, in_alloc = [], False     # memcheck: frames of the "Address ... alloc'd" section (who owns the storage)
        j = i + 1
        while j < len(lines) and j < i + (200 if head[0] == "tsan" else 80):
            fm = FRAME.match(lines[j])
            vm = VG_FRAME.match(lines[j])
            tm = TSAN_FRAME.match(lines[j]) if head[0] == "tsan" else None
            if head[0] == "tsan" and lines[j].startswith("=================="):
                if frames:
                    break
            if head[0] == "memcheck" and re.match(r"^==\d+==\s+Address 0x", lines[j]):
                in_alloc = True; block.append(lines[j]); j += 1; continue
            if tm and not fm:
                frames.append((tm.group(2), tm.group(3))); block.append(lines[j])
            elif fm:
                frames.append((fm.group(2), fm.group(3) or "")); block.append(lines[j])
            elif vm:
                (alloc_frames if in_alloc else frames).append((vm.group(1), vm.group(2))); block.append(lines[j])
            elif head[0] != "tsan" and frames and (lines[j].strip() == "" or lines[j].startswith("==") and "==    " not in lines[j] and not VG_FRAME.match(lines[j])):
                break
            elif head[0] == "tsan" and lines[j].startswith("SUMMARY: ThreadSanitizer"):
                block.append(lines[j]); j += 1
                break
            elif MARK.match(lines[j]) or ASAN_HEAD.search(lines[j]) or UBSAN_HEAD.match(lines[j]):
                break
            else:
                block.append(lines[j])
            j += 1
        owner, site = classify(frames)
        if head[0] == "memcheck" and head[1].startswith("syscall-param"):
            # bytes handed to a system call (an MPI send): MPI's own headers / padding are uninitialised all the time; the report concerns the
            # library only if the storage itself was allocated on behalf of library code
            # (a buffer of Open MPI's own free lists, allocated during MPI_Init called from main(), is not the library's storage either)
            aowner, _ = classify(alloc_frames)
            if aowner != "library":
                owner = "external"
        if head[0] == "ubsan" and not frames:
            # no stack trace printed: fall back to the source location
            loc = head[2]
            owner = "library" if "/repo/" in loc else ("harness" if "/verif/harness/" in loc else "external")
            site = loc.split("/")[-1]
        reports.append(dict(tool=head[0], kind=head[1], owner=owner, site=site, case=case, text="\n".join(block[:40])))
        i = max(j, i + 1)
    return reports


if __name__ == "__main__":
    for r in parse_text(open(sys.argv[1], errors="replace").read()):
        print(r["tool"], r["kind"], r["owner"], r["site"], r["case"])
