"""Offline checker over the per-rank event logs written by the guarded hooks in the job dispatcher (C16, also used by C06).

Log line: seq mono_ns world_rank round kind a b.  The harness driver brackets its rounds with h_case / h_round / h_case_done
markers, so events can be grouped into (case, group-round) across ranks without relying on time.
Checks per dispatch round: every job id 0..J-1 received and begun exactly once over all ranks, #Work sent = #jobs = #completions,
exactly one Finish per worker and every rank received exactly one Finish, every rank left the loop and the round, no job after
loop exit, maps identical on all ranks and naming the executor.
"""
import glob, os, re, sys, json

KIND_NAMES = ["world", "dup", "split-equal-rounds", "split-unequal-rounds", "subset", "raw-boss-works", "raw-boss-idle"]
WORK, FINISH = 1, 2


def parse(logdir):
    per_rank = {}
    for path in sorted(glob.glob(os.path.join(logdir, "rank*.log"))):
        r = int(re.search(r"rank(\d+)\.log$", path).group(1))
        evs = []
        with open(path, "r", errors="replace") as f:
            for line in f:
                p = line.split()
                if len(p) < 7:
                    continue
                try:
                    evs.append((int(p[0]), int(p[1]), int(p[2]), int(p[3]), p[4], int(p[5]), int(p[6])))
                except ValueError:
                    continue
        per_rank[r] = evs
    return per_rank


def check_logs(logdir, complete_cases=None):
    """complete_cases: set of case numbers that completed in the harness (incomplete ones are the hang detector's business)."""
    per_rank = parse(logdir)
    viol, stats = [], dict(events=0, rounds=0, jobs=0, finish_msgs=0, work_msgs=0, ranks=len(per_rank), distinct_maps=set(), seq_gaps=0)
    rounds = {}   # (case, hkey) -> {rank: [events]}
    kinds = {}
    for r, evs in per_rank.items():
        stats["events"] += len(evs)
        last_seq = None
        case, hkey = None, None
        for (seq, t, wr, rnd, kind, a, b) in evs:
            if last_seq is not None and seq != last_seq + 1:
                stats["seq_gaps"] += 1
            last_seq = seq
            if kind == "h_case":
                case, hkey = a, None
                kinds[a] = b
            elif kind == "h_case_done":
                case, hkey = None, None
            elif kind == "h_round":
                hkey = (a, b)
            elif case is not None and hkey is not None:
                rounds.setdefault((case, hkey[0]), dict(J=hkey[1], ranks={}))["ranks"].setdefault(r, []).append((kind, a, b))
            if kind == "h_round" and case is not None:
                rounds.setdefault((case, a), dict(J=b, ranks={}))["ranks"].setdefault(r, [])
    for (case, hk), info in sorted(rounds.items()):
        if complete_cases is not None and case not in complete_cases:
            continue
        J = info["J"]
        kname = KIND_NAMES[kinds.get(case, 0)] if kinds.get(case, 0) < len(KIND_NAMES) else str(kinds.get(case))
        raw = kname.startswith("raw")
        ranks = info["ranks"]
        stats["rounds"] += 1
        stats["jobs"] += J
        where = "case %d round-key %d kind %s J=%d ranks=%s" % (case, hk, kname, J, sorted(ranks))
        recv_work, begun, done, sent_work, sent_fin, recv_fin = [], [], 0, [], [], {}
        maps = {}
        for r, evs in ranks.items():
            exited = False
            for (kind, a, b) in evs:
                if kind == "recv_order":
                    if a == WORK:
                        recv_work.append(b)
                    elif a == FINISH:
                        recv_fin[r] = recv_fin.get(r, 0) + 1
                elif kind == "job_begin":
                    begun.append((a, b, r))
                    if exited:
                        viol.append(("C16:log:job-after-loop-exit:" + kname, where + ": rank %d began job %d after leaving the dispatch loop" % (r, a)))
                elif kind == "send_done":
                    done += 1
                elif kind == "send_work":
                    sent_work.append((a, b))
                elif kind == "send_finish":
                    sent_fin.append(a)
                elif kind == "loop_exit":
                    exited = True
                elif kind == "map":
                    maps.setdefault(r, []).append((a, b))
            if not raw:
                names = [e[0] for e in evs]
                for need in ("round_begin", "loop_exit", "world_barrier_enter", "world_barrier_leave", "round_end"):
                    if names.count(need) != 1:
                        viol.append(("C16:log:rank-did-not-leave:%s:%s" % (need, kname), where + ": rank %d logged %s %d times" % (r, need, names.count(need))))
        stats["work_msgs"] += len(sent_work)
        stats["finish_msgs"] += len(sent_fin)
        want = list(range(J))
        if sorted(recv_work) != want:
            viol.append(("C16:log:work-not-received-exactly-once:" + kname, where + ": job ids received as Work orders: %s" % sorted(recv_work)[:60]))
        if not raw and sorted(j for (j, cr, r) in begun) != want:
            viol.append(("C16:log:job-not-begun-exactly-once:" + kname, where + ": job ids begun: %s" % sorted(j for (j, cr, r) in begun)[:60]))
        if sorted(j for (j, w) in sent_work) != want:
            viol.append(("C16:log:work-not-sent-exactly-once:" + kname, where + ": job ids sent by the master: %s" % sorted(j for (j, w) in sent_work)[:60]))
        if done != J:
            viol.append(("C16:log:completion-count:" + kname, where + ": %d completion messages for %d jobs" % (done, J)))
        nworkers = len(ranks) - (1 if kname == "raw-boss-idle" else 0)
        if len(sent_fin) != nworkers or len(set(sent_fin)) != len(sent_fin):
            viol.append(("C16:log:finish-not-once-per-worker:" + kname, where + ": Finish sent to workers %s (expected one for each of %d workers)" % (sorted(sent_fin), nworkers)))
        for r in ranks:
            if kname == "raw-boss-idle" and r == 0:
                continue   # the idle boss has no worker loop
            if recv_fin.get(r, 0) != 1:
                viol.append(("C16:log:finish-not-received-once:" + kname, where + ": rank %d received Finish %d times" % (r, recv_fin.get(r, 0))))
        if not raw:
            ref = None
            for r in ranks:
                m = sorted(maps.get(r, []))
                if ref is None:
                    ref = m
                elif m != ref:
                    viol.append(("C16:log:map-differs-between-ranks:" + kname, where + ": rank %d returned %s, another rank %s" % (r, m[:30], ref[:30])))
                    break
            if ref is not None:
                stats["distinct_maps"].add(tuple(ref))
                execu = {j: cr for (j, cr, r) in begun}
                bad = [(j, w) for (j, w) in ref if execu.get(j) != w]
                if bad or len(ref) != J:
                    viol.append(("C16:log:map-wrong-executor:" + kname, where + ": map entries not matching the executor: %s (map size %d)" % (bad[:20], len(ref))))
    stats["distinct_maps"] = len(stats["distinct_maps"])
    return viol, stats


if __name__ == "__main__":
    v, s = check_logs(sys.argv[1])
    print(json.dumps(s))
    for k, d in v[:50]:
        print(k, d)
